"""C13 - failures propagate and never leak cache files or damage user files."""
import hashlib
import os
import shutil
import tempfile

import numpy as np
from hypothesis import strategies as st

from vt import faults, gens
from vt.runner import Violation, fingerprint

LEVEL = "fault_enumeration"
RULE = ("Hypothesis draws a configuration: API in {marginal_ln_likelihood, rejection_sample, iterative_rejection_sample} x "
        "prior-sample source in {JokerSamples object (cache file), user file (double or single precision), in-memory, a number of "
        "samples to generate} x options (n_batches, logprobs, "
        "shuffle, n_linear) x pool in {serial, MultiPool(2)}. A dry run counts the invocations N_p of every instrumented "
        "internal call p (JokerSamples.write before/after, write_table_hdf5 before/after, tables.open_file, h5py.File, read_batch, batch_tasks, "
        "JokerSamples.unpack, the helper's two batch methods, pool.map before/after, rng.uniform, rng.choice) and the task "
        "start indices; then EVERY k in 1..N_p of every point - and, for worker-side faults, every task start index - is "
        "injected once (complete enumeration for the configuration; fault types OSError / ValueError / private Exception / "
        "private BaseException in rotation). Oracle per injection: the call raises the injected exception (or one chained "
        "from it) instead of returning; the private TMPDIR holds no HDF5 file (by extension or magic bytes) and the sampler's own tempfile_path no file at all afterwards; the SHA-256 of the user's file "
        "is unchanged; the same TheJoker then reproduces the baseline likelihoods bit-for-bit and returns a valid "
        "rejection sample. Non-trivial: k>1, or a worker-side fault, or a fault after the cache file was written."
        " Also: the I/O library's own error type (tables.HDF5ExtError) among the injected exceptions; user files in single precision; for MultiPool configurations a library that lacks its 's' column is run under a 90 s watchdog: the workers' own failure must reach the caller, leave nothing behind and not spoil the next call; a vanished user file is reported as such.")
SHARDS = {"quick": 4, "thorough": 16}
BUDGET = {"quick": 80, "thorough": 800}


@st.composite
def configs(draw):
    spec = draw(gens.problems(max_surveys=1, max_epochs=5, max_poly=2, n_rows=(6, 14), units=False))
    spec["prior"]["via"] = "default"
    if spec["prior"]["K"]["kind"] != "fcm":
        spec["prior"]["K"] = {"kind": "fcm", "sigma_K0": 30.0, "sigma_K0_unit": "km/s", "P0": 365.25, "P0_unit": "d", "max_K": None}
    return {"spec": spec, "api": draw(st.sampled_from(["mll", "rej", "rej", "iter"])),
            "source": draw(st.sampled_from(["object", "object", "file", "file", "mem", "int"])),
            # the user's library in single precision (prior.sample(dtype=float32)), stored as such
            "lib_f4": draw(st.integers(0, 3)) == 0,
            "n_batches": draw(st.integers(1, 4)), "logprobs": draw(st.booleans()), "randomize": draw(st.booleans()),
            "n_linear": draw(st.sampled_from([1, 2])), "multipool": draw(st.sampled_from([False, False, False, True])),
            # iterative sampler: small first batches and large requests force several grow-and-retest iterations
            "n_req": draw(st.integers(1, 12)), "init_batch": draw(st.integers(1, 6)),
            "seed": draw(st.integers(0, 2**31))}


def sha(path):
    if not os.path.exists(path):
        return "(file no longer exists)"
    with open(path, "rb") as f:
        return hashlib.sha256(f.read()).hexdigest()


def body_factory(ctx):
    import thejoker as tj

    tmp = os.path.join(ctx.workdir, "tmpdir")
    tmp2 = os.path.join(ctx.workdir, "joker_tempfile_path")
    os.makedirs(tmp, exist_ok=True)
    os.makedirs(tmp2, exist_ok=True)

    def body(cfg):
        spec = cfg["spec"]
        if cfg.get("lib_f4"):
            spec = dict(spec, row_dtype="f4")
        if cfg["source"] == "int" and cfg["api"] != "rej":
            cfg = dict(cfg, api="rej")      # only rejection_sample takes a number of prior samples to generate
        data = gens.build_data(spec)
        prior = gens.build_prior(spec["prior"])
        lib = gens.build_samples(spec)
        lib["ln_prior"] = -0.25 * np.arange(len(lib), dtype=float)
        userfile = os.path.join(ctx.workdir, "user_lib.hdf5")
        lib.write(userfile, overwrite=True)
        user_hash = sha(userfile)
        baseline = np.asarray(tj.TheJoker(prior).marginal_ln_likelihood(data, lib, in_memory=True))
        P_lib = set(np.asarray(lib["P"].value).tolist())
        old_tmp = tempfile.tempdir
        tempfile.tempdir = tmp
        for f in faults.hdf5_files(tmp) + faults.all_files(tmp2):
            os.unlink(f)

        def make_joker(pool):
            rng = faults.FaultyGenerator(np.random.PCG64(cfg["seed"]))
            j = tj.TheJoker(prior, rng=rng, pool=pool, tempfile_path=tmp2)
            real = j._make_joker_helper
            j._make_joker_helper = lambda d: faults.HelperProxy(real(d))
            return j

        def call(j):
            src = {"object": lib, "file": userfile, "mem": lib, "int": 24}[cfg["source"]]
            mem = cfg["source"] == "mem"
            if cfg["api"] == "mll":
                return j.marginal_ln_likelihood(data, src, n_batches=cfg["n_batches"], in_memory=mem)
            if cfg["api"] == "rej":
                return j.rejection_sample(data, src, n_batches=cfg["n_batches"], return_logprobs=cfg["logprobs"],
                                          randomize_prior_order=cfg["randomize"], n_linear_samples=cfg["n_linear"], in_memory=mem)
            return j.iterative_rejection_sample(data, src, n_requested_samples=cfg.get("n_req", 2),
                                                init_batch_size=max(1, min(cfg.get("init_batch", len(lib) // 2), len(lib))),
                                                n_batches=cfg["n_batches"], return_logprobs=cfg["logprobs"],
                                                randomize_prior_order=cfg["randomize"], n_linear_samples=cfg["n_linear"], in_memory=mem)

        def post_checks(j, what):
            left = faults.hdf5_files(tmp) + faults.all_files(tmp2)
            if left:
                for f in left:
                    os.unlink(f)
                raise Violation("%s: a temporary file was left behind (system temp directory or the sampler's tempfile_path)" % what,
                                files=[os.path.basename(f) for f in left])
            held = faults.open_descriptors([tmp, tmp2])
            if held:
                raise Violation("%s: the process still holds open descriptors of temporary files (they accumulate until the "
                                "process runs out of file descriptors)" % what, targets=held[:5])
            if sha(userfile) != user_hash:
                raise Violation("%s: the user's prior-samples file was modified or removed" % what, now=sha(userfile))

        def follow_up(j, what):
            faults.reset(None)
            try:
                ll = np.asarray(j.marginal_ln_likelihood(data, lib, n_batches=cfg["n_batches"]))
                out = j.rejection_sample(data, lib, n_batches=cfg["n_batches"])
            except BaseException as e:
                import traceback as _tb
                raise Violation("%s: the same TheJoker fails on the next call: %s: %s" % (what, type(e).__name__, str(e)[:200]),
                                traceback=_tb.format_exc(limit=-8))
            if ll.tobytes() != baseline.tobytes():
                raise Violation("%s: the next call on the same TheJoker gives different likelihoods" % what)
            if len(out) < 1 or not set(np.asarray(out["P"].value).tolist()) <= P_lib:
                raise Violation("%s: the next rejection_sample on the same TheJoker is not a valid sample" % what)
            post_checks(j, what + " (follow-up call)")

        import schwimmbad
        try:
            with faults.instrumented():
                # ---------------------------------------------------------------- dry run (in-process pool)
                faults.reset(None)
                j = make_joker(faults.FaultyPool(schwimmbad.SerialPool(), size=2 if cfg["multipool"] else 1))
                try:
                    res = call(j)
                except Exception as e:
                    raise Violation("fault-free call raised %s: %s" % (type(e).__name__, str(e)[:200]))
                counts = dict(faults.COUNTS)
                starts = sorted(set(faults.TASK_STARTS))
                post_checks(j, "fault-free call")
                plans = []
                exc_names = list(faults.EXC_TYPES)
                for point in sorted(counts):
                    worker_side = point in ("read_batch", "helper.batch_marginal_ln_likelihood", "helper.batch_get_posterior_samples")
                    if cfg["multipool"] and worker_side:
                        continue  # invocation counts of worker-side points are per process: use start-index faults
                    for k in range(1, counts[point] + 1):
                        plans.append({"point": point, "k": k, "exc": exc_names[(k + len(plans)) % len(exc_names)]})
                if cfg["source"] != "mem":
                    for s_ in starts:
                        plans.append({"point": "worker@start", "k": int(s_), "exc": exc_names[int(s_) % 3]})
                if cfg["multipool"]:
                    for p in plans:
                        if p["exc"] == "InjectedBase" and p["point"] in ("worker@start",):
                            p["exc"] = "InjectedError"
                # ---------------------------------------------------------------- invalid prior-sample arguments
                if cfg["source"] == "object":
                    import pathlib
                    bad_sources = [("QTable", lib.tbl), ("ndarray", np.zeros((3, 5))), ("Path", pathlib.Path(userfile)), ("None", None)]
                    for label, bad in bad_sources:
                        jb = make_joker(faults.FaultyPool(schwimmbad.SerialPool(), size=1))
                        faults.reset(None)
                        try:
                            if cfg["api"] == "mll":
                                jb.marginal_ln_likelihood(data, bad)
                            elif cfg["api"] == "rej":
                                jb.rejection_sample(data, bad)
                            else:
                                jb.iterative_rejection_sample(data, bad, n_requested_samples=2)
                            raised_bad = None
                        except BaseException as e:
                            raised_bad = e
                        what = "%s with an invalid prior_samples argument (%s)" % (cfg["api"], label)
                        if raised_bad is None:
                            ctx.classes["invalid prior_samples argument accepted: " + label] += 1
                        post_checks(jb, what)
                        follow_up(jb, what)
                        ctx.note_case({"cfg": {k_: v for k_, v in cfg.items() if k_ != "spec"}, "bad_source": label,
                                       "problem": fingerprint(spec)}, True, ["point:invalid source " + label, "api:" + cfg["api"]])
                # ---------------------------------------------------------------- invalid data argument, then the same call again
                if cfg["source"] in ("object", "mem"):
                    jb = make_joker(faults.FaultyPool(schwimmbad.SerialPool(), size=1))
                    faults.reset(None)
                    try:
                        call(jb)                        # a good call first: whatever the sampler keeps from it must not leak
                    except Exception as e_:
                        raise Violation("fault-free call raised %s: %s" % (type(e_).__name__, str(e_)[:200]))
                    bad_data = [data, data]             # two sources, but the prior has no offset parameter: must be refused
                    mem_ = cfg["source"] == "mem"
                    for attempt in (1, 2):
                        try:
                            if cfg["api"] == "mll":
                                r_ = jb.marginal_ln_likelihood(bad_data, lib, in_memory=mem_)
                            elif cfg["api"] == "rej":
                                r_ = jb.rejection_sample(bad_data, lib, in_memory=mem_)
                            else:
                                r_ = jb.iterative_rejection_sample(bad_data, lib, n_requested_samples=2, in_memory=mem_)
                        except Exception:
                            continue
                        raise Violation("%s with a data argument that does not match the prior (2 sources, no offsets) returned a "
                                        "result on attempt %d after a successful call on the same TheJoker (a failed call must not "
                                        "be answered from what an earlier call left behind)" % (cfg["api"], attempt), returned=type(r_).__name__)
                    what = "%s after two refused calls with invalid data" % cfg["api"]
                    post_checks(jb, what)
                    follow_up(jb, what)
                    ctx.note_case({"cfg": {k_: v for k_, v in cfg.items() if k_ != "spec"}, "bad_data": "2 sources / 0 offsets",
                                   "problem": fingerprint(spec)}, True, ["point:invalid data, retried", "api:" + cfg["api"]])
                # ---------------------------------------------------------------- a failure that arises by itself in the workers
                if cfg["multipool"] and cfg["source"] in ("object", "file"):
                    # a library that lacks a column the sampler needs: reading it fails inside the worker processes; the
                    # failure must come back to the caller (in finite time), whatever exception type the reader uses
                    import threading
                    from schwimmbad import MultiPool
                    bad_lib = tj.JokerSamples()
                    for nm in ("P", "e", "omega", "M0"):
                        bad_lib[nm] = lib[nm]
                    bad_src = bad_lib
                    if cfg["source"] == "file":
                        bad_src = os.path.join(ctx.workdir, "user_lib_without_s.hdf5")
                        bad_lib.write(bad_src, overwrite=True)
                    faults.reset(None)
                    mp = MultiPool(2)
                    jb = make_joker(faults.FaultyPool(mp, size=2))
                    box = {}

                    def target():
                        try:
                            if cfg["api"] == "mll":
                                box["ret"] = jb.marginal_ln_likelihood(data, bad_src, n_batches=cfg["n_batches"])
                            elif cfg["api"] == "rej":
                                box["ret"] = jb.rejection_sample(data, bad_src, n_batches=cfg["n_batches"])
                            else:
                                box["ret"] = jb.iterative_rejection_sample(data, bad_src, n_requested_samples=2, n_batches=cfg["n_batches"])
                        except BaseException as e_:
                            box["exc"] = e_

                    th = threading.Thread(target=target, daemon=True)
                    th.start()
                    th.join(90.0)
                    what = "%s/%s on a multi-process pool with a library that lacks the 's' column" % (cfg["api"], cfg["source"])
                    if th.is_alive():
                        try:
                            mp.terminate()
                        except BaseException:
                            pass
                        raise Violation("%s: the call did not come back within 90 s (the workers' failure never reached the caller)" % what)
                    try:
                        if "exc" not in box:
                            raise Violation("%s: the call returned normally" % what, returned=type(box.get("ret")).__name__)
                        post_checks(jb, what)
                        follow_up(jb, what)
                    finally:
                        mp.close()
                    ctx.note_case({"cfg": {k_: v for k_, v in cfg.items() if k_ != "spec"}, "bad_library": "no s column",
                                   "problem": fingerprint(spec)}, True, ["point:worker fails by itself (missing column)", "api:" + cfg["api"],
                                                                         "pool:MultiPool"])
                # ---------------------------------------------------------------- enumerate every injection
                for plan in plans:
                    if ctx.expired():
                        ctx.skipped_budget += 1
                        continue
                    what = "%s/%s, fault %s at %s #%d" % (cfg["api"], cfg["source"], plan["exc"], plan["point"], plan["k"])
                    mp = None
                    worker_fault = plan["point"] == "worker@start"
                    if cfg["multipool"]:
                        # worker-side faults: the workers must inherit the plan when they are forked (that pool cannot be
                        # told afterwards that the plan is over, so the follow-up calls get a fresh pool);
                        # parent-side faults: workers are forked clean and the very same pool serves the follow-up calls
                        faults.reset(plan if worker_fault else None)
                        from schwimmbad import MultiPool
                        mp = MultiPool(2)
                        pool = faults.FaultyPool(mp, size=2)
                    else:
                        pool = faults.FaultyPool(schwimmbad.SerialPool(), size=1)
                    j = make_joker(pool)
                    faults.reset(plan)
                    raised = None
                    try:
                        ret = call(j)
                    except BaseException as e:
                        raised = e
                    faults.ACTIVE = None
                    if raised is None:
                        fired = faults.COUNTS.get(plan["point"], 0) >= plan["k"] or plan["point"] == "worker@start"
                        if not fired:
                            # the point was invoked fewer times than in the dry run (first-call effects of the I/O
                            # libraries): nothing was injected, nothing to judge
                            ctx.classes["fault point not reached again (skipped)"] += 1
                            post_checks(j, what)
                            if mp is not None:
                                mp.close()
                            continue
                        if mp is not None:
                            mp.close()
                        raise Violation("%s: the call returned normally although an internal step failed" % what,
                                        returned=type(ret).__name__, fault_fired=fired)
                    chain = []
                    e = raised
                    while e is not None and len(chain) < 6:
                        chain.append(e)
                        e = e.__cause__ or e.__context__
                    if not any(isinstance(x, tuple(faults.EXC_TYPES.values())) and "injected fault" in str(x) for x in chain) \
                            and "injected fault" not in str(raised):
                        raise Violation("%s: the exception that reached the caller is unrelated to the failure" % what,
                                        got="%s: %s" % (type(raised).__name__, str(raised)[:200]))
                    try:
                        post_checks(j, what)
                        if mp is not None and worker_fault:
                            mp.close()
                            mp = None
                            j.pool = faults.FaultyPool(schwimmbad.SerialPool(), size=1)
                        # otherwise the next calls use the same TheJoker *and the same pool object*
                        follow_up(j, what)
                    finally:
                        if mp is not None:
                            mp.close()
                    nt = plan["k"] > 1 or plan["point"] in ("worker@start", "JokerSamples.write:after", "pool.map:after") \
                        or (cfg["source"] == "object" and plan["point"] not in ("JokerSamples.write",))
                    ctx.note_case({"cfg": {k_: v for k_, v in cfg.items() if k_ != "spec"}, "plan": plan,
                                   "n_rows": len(lib), "problem": fingerprint(spec)}, nt,
                                  ["point:" + plan["point"], "exc:" + plan["exc"], "api:" + cfg["api"], "source:" + cfg["source"],
                                   "pool:" + ("MultiPool" if cfg["multipool"] else "serial")])
        finally:
            tempfile.tempdir = old_tmp
            faults.reset(None)

    return body


def run(ctx):
    ctx.search("injections", configs(), body_factory(ctx), quick=40, thorough=1200, shrink=False)
