#!/bin/sh
# run every registered quick check on the unchanged tree (refreshes evidence/)
cd "$(dirname "$0")/.." || exit 2
rc=0
for id in $(python3 -c "import json;print(' '.join(c['property_id'] for c in json.load(open('MANIFEST.json'))['checks']))"); do
  ./check "$id" --tier "${1:-quick}" 2>&1 | grep -v "Erfa\|warn(" | grep "VIOLATION\|HARNESS\|seed=" | cut -c1-200
done
