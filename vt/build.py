"""Rebuild thejoker's compiled kernel from the working tree and make Python import it.

The repository is an editable install (``/repo/thejoker``), so every ``.py`` edit is live.
The only compiled artefact is ``thejoker/src/fast_likelihood`` (Cython).  This sandbox has
no Cython, so the rebuild is:

* Cython importable  -> cythonize the ``.pyx`` into a private directory and compile it;
* otherwise          -> compile the working tree's generated ``fast_likelihood.c``;
* if nothing can be compiled -> use the ``.so`` found in the tree as it is.

The result is loaded through a ``sys.meta_path`` finder that maps exactly
``thejoker.src.fast_likelihood`` to the fresh shared object.  Forked workers inherit it.
"""
import hashlib
import importlib.machinery
import importlib.util
import os
import re
import subprocess
import sys
import sysconfig

VERIF = os.path.dirname(os.path.dirname(os.path.abspath(__file__)))
REPO = os.environ.get("VERIF_REPO", "/repo")
BUILD_ROOT = os.path.join(VERIF, ".build")
MODNAME = "thejoker.src.fast_likelihood"
SUFFIX = sysconfig.get_config_var("EXT_SUFFIX") or ".so"

_info = None


def _sha(*paths, extra=""):
    h = hashlib.sha256(extra.encode())
    for p in paths:
        with open(p, "rb") as f:
            h.update(f.read())
    return h.hexdigest()


def pyx_matches_c(pyx, c):
    """Do the .pyx source lines quoted in the generated C still match the .pyx?

    Cython quotes the source as  /* "thejoker/src/fast_likelihood.pyx":LINE ... * code  # <<<<
    We compare every marked line with the same line of the .pyx.
    Returns (ok, n_checked, first_mismatch)."""
    try:
        src = open(pyx, encoding="utf-8").read().split("\n")
        ctext = open(c, encoding="utf-8", errors="replace").read()
    except OSError:
        return True, 0, None
    n = 0
    pat = re.compile(
        r'/\* "thejoker/src/fast_likelihood\.pyx":(\d+)\n(?:(?: \*[^\n]*\n)*?) \* ([^\n]*?)\s+# <<<<<<<<<<<<<<\n'
    )
    for m in pat.finditer(ctext):
        ln = int(m.group(1))
        code = m.group(2).strip()
        n += 1
        if ln - 1 >= len(src) or src[ln - 1].strip() != code:
            return False, n, (ln, code, src[ln - 1].strip() if ln - 1 < len(src) else None)
    return True, n, None


def _compile(c_path, out_so):
    import numpy

    sp = sysconfig.get_paths()
    site = os.path.dirname(os.path.dirname(numpy.__file__))
    twobody = os.path.join(site, "twobody")
    cmd = [
        os.environ.get("CC", "gcc"), "-O1", "-fPIC", "-shared", "--std=gnu99", "-w",
        "-DNPY_NO_DEPRECATED_API=NPY_1_7_API_VERSION",
        "-I" + sp["include"], "-I" + numpy.get_include(), "-I" + twobody,
        c_path, os.path.join(twobody, "src", "twobody.c"), "-lm", "-o", out_so + ".tmp%d" % os.getpid(),
    ]
    subprocess.run(cmd, check=True, capture_output=True)
    os.replace(out_so + ".tmp%d" % os.getpid(), out_so)


def ensure_ext():
    """Build (if needed) and return a dict describing which extension will be imported."""
    global _info
    if _info is not None:
        return _info
    src = os.path.join(REPO, "thejoker", "src")
    pyx = os.path.join(src, "fast_likelihood.pyx")
    c = os.path.join(src, "fast_likelihood.c")
    tree_so = os.path.join(src, "fast_likelihood" + SUFFIX)
    info = {"repo": REPO, "mode": None, "so": None, "notes": []}

    have_cython = importlib.util.find_spec("Cython") is not None
    c_src = None
    if have_cython and os.path.exists(pyx):
        try:
            h = _sha(pyx, extra="cython")
            d = os.path.join(BUILD_ROOT, "cy" + h[:16])
            os.makedirs(d, exist_ok=True)
            c_src = os.path.join(d, "fast_likelihood.c")
            if not os.path.exists(c_src):
                import numpy
                site = os.path.dirname(os.path.dirname(numpy.__file__))
                subprocess.run(
                    [sys.executable, "-m", "cython", "-3", "-I", os.path.join(site, "twobody"),
                     pyx, "-o", c_src], check=True, capture_output=True, cwd=REPO)
            info["mode"] = "cythonized .pyx"
        except Exception as e:  # pragma: no cover - no Cython in this sandbox
            info["notes"].append("cythonize failed: %r" % (e,))
            c_src = None
    if c_src is None and os.path.exists(c):
        c_src = c
        info["mode"] = "compiled working-tree fast_likelihood.c"
        ok, n, mm = pyx_matches_c(pyx, c)
        if not ok:
            info["notes"].append(
                "extension built from a .c that no longer matches the .pyx (line %s); "
                "no Cython available to regenerate it" % (mm[0],))
    if c_src is not None:
        try:
            import numpy
            site = os.path.dirname(os.path.dirname(numpy.__file__))
            h = _sha(c_src, os.path.join(site, "twobody", "src", "twobody.c"), extra="O1" + SUFFIX)
            d = os.path.join(BUILD_ROOT, h[:16])
            os.makedirs(d, exist_ok=True)
            so = os.path.join(d, "fast_likelihood" + SUFFIX)
            if not os.path.exists(so):
                _compile(c_src, so)
            info["so"] = so
        except Exception as e:
            err = getattr(e, "stderr", b"")
            info["notes"].append("compile failed (%r %s): falling back to the tree .so" % (e, err[-300:] if err else ""))
            info["so"] = None
    if info["so"] is None:
        if not os.path.exists(tree_so):
            raise RuntimeError("no usable fast_likelihood extension (no .c to build, no .so in the tree)")
        info["so"] = tree_so
        info["mode"] = "working-tree .so as found"
    _install(info["so"])
    _info = info
    return info


class _Finder:
    so = None

    @classmethod
    def find_spec(cls, fullname, path=None, target=None):
        if fullname == MODNAME and cls.so:
            loader = importlib.machinery.ExtensionFileLoader(fullname, cls.so)
            return importlib.util.spec_from_file_location(fullname, cls.so, loader=loader)
        return None


def _install(so):
    _Finder.so = so
    if _Finder not in sys.meta_path:
        sys.meta_path.insert(0, _Finder)
    # make `import thejoker` resolve to REPO (matters only when VERIF_REPO points elsewhere)
    if REPO not in sys.path:
        sys.path.insert(0, REPO)
    if "thejoker" in sys.modules:
        m = sys.modules["thejoker"]
        if not os.path.abspath(m.__file__).startswith(os.path.abspath(REPO) + os.sep):
            raise RuntimeError("thejoker was imported from %s before vt.build ran" % m.__file__)


def assumptions():
    i = ensure_ext()
    out = ["compiled kernel: %s (%s)" % (i["mode"], os.path.relpath(i["so"], VERIF) if i["so"].startswith(VERIF) else i["so"])]
    out += i["notes"]
    return out


if __name__ == "__main__":
    print(ensure_ext())
