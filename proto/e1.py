import warnings; warnings.filterwarnings("ignore")
import numpy as np, astropy.units as u, time
from astropy.time import Time
import pymc as pm
import thejoker as tj, thejoker.units as xu
from twobody.wrap import cy_rv_from_elements
from scipy.stats import multivariate_normal

rng = np.random.default_rng(1)
t = 56000 + np.sort(rng.uniform(0, 300, 7))
rv = rng.normal(0, 5, 7) * u.km/u.s
err = rng.uniform(0.1, 0.5, 7) * u.km/u.s
data = tj.RVData(t=t, rv=rv, rv_err=err)
t0=time.time()
prior = tj.JokerPrior.default(P_min=2*u.day, P_max=500*u.day, sigma_K0=30*u.km/u.s, sigma_v=100*u.km/u.s)
print("prior", time.time()-t0)
t0=time.time()
samples = prior.sample(size=5, rng=np.random.default_rng(2))
print("sample", time.time()-t0)
print(samples.tbl)
joker = tj.TheJoker(prior, rng=np.random.default_rng(3))
def ref(P,e,om,M0,s, sigK0=30., P0=365.25, maxK=500., sigv=100.):
    tt = data._t_bmjd; t0_ = data._t_ref_bmjd
    z = cy_rv_from_elements(np.ascontiguousarray(tt), P, 1., e, om, M0, t0_, 1e-13, 256)
    M = np.stack([z, np.ones_like(tt)], axis=1)
    varK = min(sigK0**2/(1-e**2)*(P/P0)**(-2/3), maxK**2)
    Lam = np.diag([varK, sigv**2])
    C = np.diag(err.value**2 + s**2)
    B = C + M@Lam@M.T
    return multivariate_normal.logpdf(rv.value, np.zeros(len(tt)), B)
for s in [0., 1.0]:
    smp = samples.copy()
    smp['s'] = np.full(len(smp), s)*u.km/u.s
    ll = joker.marginal_ln_likelihood(data, smp, in_memory=True)
    r = [ref(smp['P'][i].value, smp['e'][i].value, smp['omega'][i].value, smp['M0'][i].value, s) for i in range(len(smp))]
    print("s=",s, ll, np.array(r), ll-np.array(r))
