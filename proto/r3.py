# recon: C17 / C12 extras
import warnings; warnings.filterwarnings("ignore")
import numpy as np, astropy.units as u, os, tempfile, h5py, hashlib
from astropy.time import Time
import thejoker as tj
from thejoker.utils import read_batch
r = np.random.default_rng(1)
def mk(N, pt=2, no=1, t_ref=Time(56000.5, format='mjd', scale='tcb'), extra=True):
    s = tj.JokerSamples(poly_trend=pt, n_offsets=no, t_ref=t_ref)
    s['P'] = r.uniform(2,500,N)*u.day; s['e']=r.uniform(0,.9,N); s['omega']=r.uniform(-7,7,N)*u.rad; s['M0']=r.uniform(0,6.28,N)*u.deg; s['s']=r.uniform(0,1,N)*u.m/u.s
    if extra:
        s['K']=r.normal(0,5,N)*u.km/u.s; s['v0']=r.normal(0,5,N)*u.km/u.s
        for i in range(1,pt): s[f'v{i}']=r.normal(0,1e-2,N)*u.km/u.s/u.day**i
        for i in range(no): s[f'dv0_{i+1}']=r.normal(0,1,N)*u.m/u.s
        s['ln_prior']=r.normal(size=N); s['ln_likelihood']=r.normal(size=N)
    return s
s = mk(7)
def meta(x): return (x.t_ref.mjd if x.t_ref is not None else None, x.poly_trend, x.n_offsets, [str(x[k].unit) for k in x.par_names])
print("base", meta(s))
for desc, x in [("int", s[3]), ("np.int64", s[np.int64(3)]), ("slice", s[1:4]), ("mask", s[s['e']>0.3]), ("idxarr", s[np.array([5,0,0])]), ("copy", s.copy()), ("mean", s.mean()), ("std", s.std()), ("median_period", s.median_period())]:
    print(desc, len(x), meta(x) == meta(s), meta(x) if meta(x)!=meta(s) else "")
mp = s.median_period(); print("median member:", any(all(np.array_equal(mp[k].value, s[k][i:i+1].value) for k in s.par_names) for i in range(len(s))), "P is median?", mp['P'], np.sort(s['P'])[len(s)//2])
# get_t0: M(t0) = 0
t0 = s.get_t0(); dt = (t0 - s.t_ref).to(u.day)
Mt = (2*np.pi*dt/s['P']).decompose().value - s['M0'].to_value(u.rad)
print("M(t0) mod 2pi", np.abs(((Mt+np.pi)%(2*np.pi))-np.pi).max())
tp = s.get_time_with_phase(1.3*u.rad); Mt = (2*np.pi*(tp - s.t_ref).to(u.day)/s['P']).decompose().value - s['M0'].to_value(u.rad); print("M(t_phase)-1.3", np.abs(((Mt-1.3+np.pi)%(2*np.pi))-np.pi).max())
# pack/unpack
p, un = s.pack(nonlinear_only=False); s2 = tj.JokerSamples.unpack(p, un, t_ref=s.t_ref, poly_trend=2, n_offsets=1)
print("pack/unpack names", s2.par_names == s.par_names, "units", [str(s2[k].unit) for k in s2.par_names][:5], "values", all(np.allclose(s2[k].value, s[k].to_value(s2[k].unit)) for k in s.par_names))
p, un = s.pack(); print("pack default", p.shape, un)
# wrap_K with omega in deg
s3 = mk(5); s3['omega'] = s3['omega'].to(u.deg); om0 = s3['omega'].copy(); K0 = s3['K'].copy()
tt = Time(56000 + np.linspace(0, 50, 7), format='mjd', scale='tcb')
b = np.array([s3.get_orbit(i).radial_velocity(tt).to_value(u.km/u.s) for i in range(5)]); s3.wrap_K(); a = np.array([s3.get_orbit(i).radial_velocity(tt).to_value(u.km/u.s) for i in range(5)])
print("wrap_K deg: rv diff", np.abs(a-b).max(), "K>=0", (s3['K']>=0).all(), s3['omega'].unit, (s3['omega']-om0))
print("=== C12 extras")
td = tempfile.mkdtemp()
f = os.path.join(td, 'x.hdf5'); s.write(f)
try: s.write(f); print("second write w/o overwrite accepted!")
except Exception as ex: print("second write refused", type(ex).__name__)
rr = tj.JokerSamples.read(f); print("roundtrip meta", meta(rr)==meta(s), "values bitwise", all(np.array_equal(rr[k].value, s[k].value) for k in s.par_names), "names", rr.par_names==s.par_names)
s.write(f, overwrite=True); print("overwrite len", len(tj.JokerSamples.read(f)))
s1 = mk(1); f1 = os.path.join(td,'one.hdf5'); s1.write(f1); r1 = tj.JokerSamples.read(f1); print("size1", len(r1), meta(r1)==meta(s1))
print(read_batch(f1, ['P','s'], (0,1), units={'s':u.km/u.s}), s1['P'], s1['s'].to(u.km/u.s))
sn = mk(4, t_ref=None); fn = os.path.join(td,'n.hdf5'); sn.write(fn); rn = tj.JokerSamples.read(fn); print("t_ref None", rn.t_ref)
su = mk(4, t_ref=Time('2015-03-01T00:00:00', scale='utc')); fu = os.path.join(td,'u.hdf5'); su.write(fu); ru = tj.JokerSamples.read(fu); print("t_ref utc isot", ru.t_ref, ru.t_ref.scale, (ru.t_ref - su.t_ref).sec)
for ext in ['.fits']:
    ff = os.path.join(td, 'y'+ext); su.write(ff); rf = tj.JokerSamples.read(ff); print("fits utc t_ref", rf.t_ref, rf.t_ref.scale, (rf.t_ref - su.t_ref).sec, meta(rf)[1:]==meta(su)[1:], all(np.array_equal(rf[k].value, su[k].value) for k in su.par_names))
# group write/read
fg = os.path.join(td,'g.hdf5')
with h5py.File(fg,'w') as h: g = h.create_group('star1'); s.write(g)
with h5py.File(fg,'r') as h: rg = tj.JokerSamples.read(h['star1']); print("group read", len(rg), meta(rg)==meta(s))
# read_batch variants
print(read_batch(f, ['e','P'], slice(1,6,2)).shape, read_batch(f, ['e'], 3, rng=np.random.default_rng(0)).shape)
b = read_batch(f, ['P'], 7, rng=np.random.default_rng(0)); print("random full: is permutation", sorted(b[:,0].tolist()) == sorted(s['P'].value.tolist()))
try: print(read_batch(f, ['P'], 8, rng=np.random.default_rng(0)).shape)
except Exception as ex: print("random > n:", type(ex).__name__)
print(read_batch(f, ['M0'], (2,4), units={'M0':u.rad}).ravel(), s['M0'][2:4].to(u.rad))
print("neg slice", read_batch(f, ['P'], slice(-3, None)).ravel(), s['P'][-3:].value)
print("idx neg", end=" "); 
try: print(read_batch(f, ['P'], np.array([-1, 0])).ravel(), s['P'][[-1,0]].value)
except Exception as ex: print(type(ex).__name__, ex)
print("idx bool", end=" ")
try: print(read_batch(f, ['P'], (s['e'].value > 0.3)).ravel(), s['P'][s['e']>0.3].value)
except Exception as ex: print(type(ex).__name__, ex)
