import warnings; warnings.filterwarnings("ignore")
import numpy as np, astropy.units as u
import pymc as pm
import thejoker as tj, thejoker.units as xu
from twobody.wrap import cy_rv_from_elements

def kepler_z(t, P, e, om, M0, t0):
    # independent Kepler solve, Newton from high-precision start
    M = 2*np.pi*(t - t0)/P - M0
    M = np.mod(M, 2*np.pi)
    E = M + e*np.sin(M)/(1 - np.sin(M+e) + np.sin(M)) if e>0 else M.copy()
    for _ in range(200):
        dE = (E - e*np.sin(E) - M)/(1 - e*np.cos(E))
        E = E - dE
        if np.all(np.abs(dE) < 1e-15): break
    f = 2*np.arctan2(np.sqrt(1+e)*np.sin(E/2), np.sqrt(1-e)*np.cos(E/2))
    return np.cos(om+f) + e*np.cos(om)

def design(t, t0, ids, poly_trend, P, e, om, M0, solver="twobody"):
    if solver == "twobody":
        z = cy_rv_from_elements(np.ascontiguousarray(t, dtype=float), P, 1., e, om, M0, t0, 1e-10, 128)
    else:
        z = kepler_z(t, P, e, om, M0, t0)
    cols = [z, np.ones_like(t)]
    for k in sorted(set(ids))[1:]:
        cols.append((np.asarray(ids) == k).astype(float))
    for i in range(1, poly_trend):
        cols.append((t - t0)**i)
    return np.stack(cols, axis=1)

def ln_marg(y, var, M, mu, Lam):
    B = np.diag(var) + (M*Lam)@M.T
    r = y - M@mu
    L = np.linalg.cholesky(B)
    a = np.linalg.solve(L, r)
    return -0.5*(a@a) - np.log(np.diag(L)).sum() - 0.5*len(y)*np.log(2*np.pi)
