# recon: C13 fault injection prototype
from ref import *
import os, tempfile, hashlib, glob
from unittest import mock
from schwimmbad import MultiPool, SerialPool
import thejoker.multiproc_helpers as mh, thejoker.utils as ut, thejoker.samples as sm
def mkdata(n, seed=0, errscale=1.):
    r = np.random.default_rng(seed); t = 56000 + np.sort(r.uniform(0, 300, n))
    return tj.RVData(t=t, rv=r.normal(0,5,n)*u.km/u.s, rv_err=errscale*r.uniform(0.1,0.5,n)*u.km/u.s)
def mksamples(N, seed=1):
    r = np.random.default_rng(seed); smp = tj.JokerSamples()
    smp['P'] = r.uniform(2, 500, N)*u.day; smp['e'] = r.uniform(0,0.9,N); smp['omega']=r.uniform(0,6.28,N)*u.rad
    smp['M0']=r.uniform(0,6.28,N)*u.rad; smp['s']=np.zeros(N)*u.km/u.s; smp['ln_prior'] = r.normal(size=N)
    return smp
class Injected(Exception): pass
class Counter:
    def __init__(self, real, fail_at=None): self.real=real; self.n=0; self.fail_at=fail_at
    def __call__(self, *a, **k):
        self.n += 1
        if self.fail_at is not None and self.n == self.fail_at: raise Injected(f"call {self.n}")
        return self.real(*a, **k)
def sha(p): return hashlib.sha256(open(p,'rb').read()).hexdigest()
if __name__ == "__main__":
    scratch = tempfile.mkdtemp(); tmpd = os.path.join(scratch, 'tmp'); os.makedirs(tmpd); tempfile.tempdir = tmpd
    prior = tj.JokerPrior.default(P_min=2*u.day, P_max=500*u.day, sigma_K0=30*u.km/u.s, sigma_v=100*u.km/u.s)
    data = mkdata(5, errscale=40.); smp = mksamples(60)
    userfile = os.path.join(scratch, 'user.hdf5'); smp.write(userfile); h0 = sha(userfile)
    base_ll = tj.TheJoker(prior).marginal_ln_likelihood(data, smp, in_memory=True)
    points = {'read_batch': (mh, 'read_batch'), 'tb.open_file': (mh.tb, 'open_file'), 'h5py.File': (mh.h5py, 'File'), 'unpack': None, 'write': None, 'batch_tasks': (mh, 'batch_tasks')}
    def run(joker, api, src):
        if api == 'mll': return joker.marginal_ln_likelihood(data, src, n_batches=3)
        if api == 'rs': return joker.rejection_sample(data, src, n_batches=3, return_logprobs=False)
        if api == 'irs': return joker.iterative_rejection_sample(data, src, n_requested_samples=5, init_batch_size=10, n_batches=2)
    tot = 0; bad = 0
    for api in ['mll','rs','irs']:
      for srcname in ['obj','file']:
        src = smp if srcname=='obj' else userfile
        for pname, target in points.items():
            if target is None:
                if pname == 'unpack': patcher = lambda c: mock.patch.object(sm.JokerSamples, 'unpack', new=classmethod(lambda cls, *a, **k: c(*a, **k)))
                else: patcher = lambda c: mock.patch.object(sm.JokerSamples, 'write', new=lambda self, *a, **k: c(self, *a, **k))
                real = sm.JokerSamples.unpack if pname=='unpack' else sm.JokerSamples.write
            elif pname == 'h5py.File':
                import h5py as _h
                real = _h.File
                def patcher(c, real=real):
                    class F(real):
                        def __init__(self, *a, **k):
                            c.n += 1
                            if c.fail_at is not None and c.n == c.fail_at: raise Injected(f"call {c.n}")
                            super().__init__(*a, **k)
                    return mock.patch.object(_h, 'File', new=F)
            else:
                mod, attr = target; real = getattr(mod, attr)
                patcher = (lambda mod, attr: (lambda c: mock.patch.object(mod, attr, new=c)))(mod, attr)
            # dry run to count
            c = Counter(real)
            with patcher(c):
                joker = tj.TheJoker(prior, rng=np.random.default_rng(3)); run(joker, api, src)
            ncalls = c.n
            for k in range(1, ncalls+1):
                c = Counter(real, fail_at=k); joker = tj.TheJoker(prior, rng=np.random.default_rng(3))
                raised = None
                with patcher(c):
                    try: out = run(joker, api, src)
                    except Injected as ex: raised = ex
                    except Exception as ex: raised = ex
                left = [p for p in glob.glob(os.path.join(tmpd, '*')) if p.endswith('.hdf5') or open(p,'rb').read(4)==b'\x89HDF']; other = [p for p in glob.glob(os.path.join(tmpd, '*')) if p not in left]
                if other and tot==0: print('other tmp files:', [(p, os.path.getsize(p), open(p,'rb').read(40)) for p in other[:3]])
                for p in other: os.unlink(p)
                ok = raised is not None and not left and sha(userfile) == h0
                # follow-up on same object
                ll2 = joker.marginal_ln_likelihood(data, src); ok &= np.array_equal(ll2, base_ll)
                tot += 1
                if not ok: bad += 1; print("BAD", api, srcname, pname, k, repr(raised), left)
                for p in left: os.unlink(p)
            print(api, srcname, pname, "calls", ncalls)
    print("total injected", tot, "bad", bad)
    # Multi pool worker failure
    def failing_read_batch(file, cols, slice_or_idx, **kw):
        if isinstance(slice_or_idx, tuple) and slice_or_idx[0] >= 20: raise Injected("worker")
        return real_rb(file, cols, slice_or_idx, **kw)
    real_rb = mh.read_batch
    with mock.patch.object(mh, 'read_batch', new=failing_read_batch):
        with MultiPool(processes=2) as pool:
            joker = tj.TheJoker(prior, rng=np.random.default_rng(3), pool=pool)
            try: joker.marginal_ln_likelihood(data, smp, n_batches=4); print("multipool: NO raise")
            except Exception as ex: print("multipool raised", type(ex).__name__, ex, "left", glob.glob(os.path.join(tmpd,'*')))
    with MultiPool(processes=2) as pool:
        joker = tj.TheJoker(prior, rng=np.random.default_rng(3), pool=pool)
        print("multipool follow-up ok", np.array_equal(joker.marginal_ln_likelihood(data, smp, n_batches=4), base_ll))
