from ref import *
import os, tempfile, traceback
rng = np.random.default_rng(5)
def mkdata(n, unit=u.km/u.s, base=56000., span=300., seed=0):
    r = np.random.default_rng(seed)
    t = base + np.sort(r.uniform(0, span, n))
    return tj.RVData(t=t, rv=r.normal(0,5,n)*unit, rv_err=r.uniform(0.1,0.5,n)*unit)
def mksamples(N, s=0., pt=1, no=0, seed=1, lnp=False):
    r = np.random.default_rng(seed)
    smp = tj.JokerSamples(poly_trend=pt, n_offsets=no)
    smp['P'] = r.uniform(2, 500, N)*u.day; smp['e'] = r.uniform(0,0.9,N); smp['omega']=r.uniform(0,6.28,N)*u.rad
    smp['M0']=r.uniform(0,6.28,N)*u.rad; smp['s']=np.full(N, s)*u.km/u.s
    if lnp: smp['ln_prior'] = r.normal(size=N)
    return smp

print("=== B: C07 P unit")
data = mkdata(6)
smp = mksamples(5)
p_day = tj.JokerPrior.default(P_min=2*u.day, P_max=500*u.day, sigma_K0=30*u.km/u.s, sigma_v=100*u.km/u.s)
p_yr = tj.JokerPrior.default(P_min=(2*u.day).to(u.yr), P_max=(500*u.day).to(u.yr), sigma_K0=30*u.km/u.s, sigma_v=100*u.km/u.s)
p_P0h = tj.JokerPrior.default(P_min=2*u.day, P_max=500*u.day, sigma_K0=30*u.km/u.s, P0=(1*u.yr).to(u.hour), sigma_v=100*u.km/u.s)
p_ms = tj.JokerPrior.default(P_min=2*u.day, P_max=500*u.day, sigma_K0=30000*u.m/u.s, sigma_v=1e5*u.m/u.s)
for nm, p in [('day',p_day),('yr',p_yr),('P0hour',p_P0h),('m/s prior',p_ms)]:
    print(nm, tj.TheJoker(p).marginal_ln_likelihood(data, smp, in_memory=True))
data_ms = tj.RVData(t=data.t, rv=data.rv.to(u.m/u.s), rv_err=data.rv_err.to(u.m/u.s))
print('data m/s', tj.TheJoker(p_day).marginal_ln_likelihood(data_ms, smp, in_memory=True) + len(data)*np.log(1000.))
smp_yr = mksamples(5); smp_yr['P'] = smp_yr['P'].to(u.yr); smp_yr['omega']=smp_yr['omega'].to(u.deg)
print('samples yr/deg', tj.TheJoker(p_day).marginal_ln_likelihood(data, smp_yr, in_memory=True))
print('samples yr/deg file', tj.TheJoker(p_day).marginal_ln_likelihood(data, smp_yr, in_memory=False))

print("=== C: C08 interleaved")
d1 = mkdata(5, seed=1); d2 = mkdata(4, seed=2)  # same time range -> interleaved
p_off = None
with pm.Model():
    dv = xu.with_unit(pm.Normal('dv0_1', 0, 5.), u.km/u.s)
    p_off = tj.JokerPrior.default(P_min=2*u.day, P_max=500*u.day, sigma_K0=30*u.km/u.s, sigma_v=100*u.km/u.s, v0_offsets=[dv])
from thejoker.data_helpers import validate_prepare_data
alld, ids, M = validate_prepare_data([d1,d2], 1, 1)
print("ids", ids); 
true_ids = np.array([0 if any(np.isclose(tt, d1._t_bmjd)) else 1 for tt in alld._t_bmjd]); print("true", true_ids)
print("M offset col", M[:,1])

print("=== D: C06 ln_prior column on file path")
smpl = mksamples(200, lnp=True)
j = tj.TheJoker(p_day, rng=np.random.default_rng(1))
out = j.rejection_sample(data, smpl, return_logprobs=True, in_memory=False)
print(type(out['ln_prior']), out['ln_prior'].dtype, out['ln_prior'][:2])
out2 = tj.TheJoker(p_day, rng=np.random.default_rng(1)).rejection_sample(data, smpl, return_logprobs=True, in_memory=True)
print(out2['ln_prior'].dtype, out2['ln_prior'][:2], len(out), len(out2))

print("=== E: C14")
smpl = mksamples(50, lnp=True)
smpl['P'][3] = np.nan*u.day
try:
    r = tj.TheJoker(p_day, rng=np.random.default_rng(1)).iterative_rejection_sample(data, smpl, n_requested_samples=2, init_batch_size=10, in_memory=True)
    print("returned", type(r), r)
except Exception as ex: print("raised", type(ex), ex)
smpl = mksamples(500, lnp=True)
class Rec(np.random.Generator):
    pass
r = tj.TheJoker(p_day, rng=np.random.default_rng(1)).iterative_rejection_sample(data, smpl, n_requested_samples=400, init_batch_size=10, max_prior_samples=20, in_memory=True)
print("inmem max_prior_samples=20 -> n returned", len(r))
r = tj.TheJoker(p_day, rng=np.random.default_rng(1)).iterative_rejection_sample(data, smpl, n_requested_samples=400, init_batch_size=10, max_prior_samples=20, in_memory=False)
print("file max_prior_samples=20 -> n returned", len(r))

print("=== F: C15 copy")
from astropy.time import Time
d = tj.RVData(t=data.t, rv=data.rv, rv_err=data.rv_err, t_ref=Time(55000., format='mjd', scale='tcb'))
print(d.t_ref.mjd, d.copy().t_ref.mjd)
d = tj.RVData(t=data.t, rv=data.rv, rv_err=data.rv_err, t_ref=False)
print(d.t_ref, d.copy().t_ref)

print("=== G: C19 max_phase_gap")
s1 = tj.JokerSamples(); s1['P'] = [10.]*u.day
dd = tj.RVData(t=56000 + np.array([2.,3.,4.,5.]), rv=[1,2,3,4.]*u.km/u.s, rv_err=[1,1,1,1.]*u.km/u.s, t_ref=Time(56000., format='mjd', scale='tcb'))
print("phases", dd.phase(s1['P']), "mpg", tj.max_phase_gap(s1, dd), "expected 0.7")
