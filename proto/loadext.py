import sys, importlib.machinery, importlib.util
SO = "/tmp/bt/fast_likelihood.cpython-312-x86_64-linux-gnu.so"
class F:
    @classmethod
    def find_spec(cls, fullname, path=None, target=None):
        if fullname == "thejoker.src.fast_likelihood":
            loader = importlib.machinery.ExtensionFileLoader(fullname, SO)
            return importlib.util.spec_from_file_location(fullname, SO, loader=loader)
        return None
sys.meta_path.insert(0, F)
