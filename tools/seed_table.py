#!/usr/bin/env python3
"""Markdown table of the seeded changes under /verif/seeded (for DESIGN.md 10.6)."""
import json, os, re
rows = []
root = "/verif/seeded"


def key(n):
    m = re.match(r"C(\d+)-m(\d+)", n)
    return (int(m.group(1)), int(m.group(2))) if m else (99, 0)


for name in sorted(os.listdir(root), key=key):
    mp = os.path.join(root, name, "meta.json")
    if not os.path.exists(mp):
        continue
    m = json.load(open(mp))
    v = m.get("validation", {})
    ran = "; ".join("%s: %s" % (r["check"], r["verdict"]) for r in v.get("ran", []))
    rc = v.get("recheck") or {}
    now = "%s: %s" % (rc.get("check"), rc.get("verdict")) if rc else "(= first run)"
    rows.append("| %s | %s | %s | %s | %s | %s |" % (name, (m.get("title") or "").replace("|", "/")[:90], (m.get("needs_to_manifest") or "").replace("|", "/").replace("\n", " ")[:160],
                                                  "yes" if v.get("valid") else "NO", ran, now))
print("| seed | change | needs to manifest | validated (demo passes/fails, suite 50/50) | our checks when the seed arrived | own check, final code |")
print("|------|--------|-------------------|------|------|------|")
print("\n".join(rows))
