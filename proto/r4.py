# recon: C02 / C06 / C05 on current tree, real helper
from ref import *
import os, tempfile
from schwimmbad import MultiPool
def mkdata(n, seed=0, errscale=1.):
    r = np.random.default_rng(seed); t = 56000 + np.sort(r.uniform(0, 300, n))
    return tj.RVData(t=t, rv=r.normal(0,5,n)*u.km/u.s, rv_err=errscale*r.uniform(0.1,0.5,n)*u.km/u.s)
def mksamples(N, seed=1, dup=False):
    r = np.random.default_rng(seed); smp = tj.JokerSamples()
    smp['P'] = r.uniform(2, 500, N)*u.day; smp['e'] = r.uniform(0,0.9,N); smp['omega']=r.uniform(0,6.28,N)*u.rad
    smp['M0']=r.uniform(0,6.28,N)*u.rad; smp['s']=np.zeros(N)*u.km/u.s; smp['ln_prior'] = r.normal(size=N)
    return smp
class RecGen(np.random.Generator):
    def __init__(self, bg): super().__init__(bg); self.log = []
    def uniform(self, *a, **k):
        out = super().uniform(*a, **k); self.log.append(('uniform', np.array(out))); return out
    def choice(self, *a, **k):
        out = super().choice(*a, **k); self.log.append(('choice', np.array(out))); return out
if __name__ == "__main__":
    prior = tj.JokerPrior.default(P_min=2*u.day, P_max=500*u.day, sigma_K0=30*u.km/u.s, sigma_v=100*u.km/u.s)
    td = tempfile.mkdtemp()
    nbad = 0; ncase = 0
    for errscale in [0.5, 5., 60.]:
        data = mkdata(5, errscale=errscale)
        smp = mksamples(120)
        fn = os.path.join(td, f"lib{errscale}.hdf5"); smp.write(fn, overwrite=True)
        ll_all = tj.TheJoker(prior).marginal_ln_likelihood(data, smp, in_memory=True)
        for src in ['obj','file']:
          for inmem in [True, False]:
            if src=='file' and inmem: continue
            for rand in [False, True]:
              for nps in [None, 50]:
                for mps in [None, 3]:
                  for nlin in [1, 2]:
                    rg = RecGen(np.random.PCG64(7))
                    j = tj.TheJoker(prior, rng=rg)
                    out, lls = j.rejection_sample(data, smp if src=='obj' else fn, n_prior_samples=nps, max_posterior_samples=mps, n_linear_samples=nlin,
                                             randomize_prior_order=rand, in_memory=inmem, return_all_logprobs=True, return_logprobs=(nlin==1))
                    ncase += 1
                    idx = None
                    for kind, val in rg.log:
                        if kind == 'choice': idx = val
                    uu = [v for k_, v in rg.log if k_=='uniform'][0]
                    if inmem:   # in-memory path ignores n_prior_samples and randomize
                        order = np.arange(len(smp))
                    else:
                        order = idx if rand else np.arange(nps or len(smp))
                    ok = np.array_equal(lls, ll_all[order]) and len(uu) == len(order)
                    acc = np.where(np.exp(ll_all[order] - ll_all[order].max()) > uu)[0]
                    if mps: acc = acc[:mps]
                    rows = np.repeat(order[acc], nlin)
                    ok &= len(out) == len(rows) and all(np.array_equal(out[k].to_value(smp[k].unit), smp[k].value[rows]) for k in ['P','e','omega','M0','s'])
                    if nlin == 1 and ok:
                        ok &= np.array_equal(np.asarray(out['ln_likelihood']), ll_all[rows])
                        lp = out['ln_prior']
                        if lp.dtype.names: ok_lp = np.array_equal(lp['ln_prior'], smp['ln_prior'].value[rows]); tag='(struct)'
                        else: ok_lp = np.array_equal(np.asarray(lp), smp['ln_prior'].value[rows]); tag=''
                        ok &= ok_lp
                    if not ok: nbad += 1; print("BAD", errscale, src, inmem, rand, nps, mps, nlin, len(out), len(rows))
        print("errscale", errscale, "n accepted (full)", (np.exp(ll_all-ll_all.max()) > 0.5).sum())
    print("cases", ncase, "bad", nbad)
    # C05 history: probe ll before/after other calls
    data = mkdata(6, errscale=20.); smp = mksamples(60)
    j = tj.TheJoker(prior, rng=np.random.default_rng(1)); h = j._make_joker_helper(data)
    chunk, _ = smp.pack(units=h.internal_units, names=h.packed_order); chunk = np.ascontiguousarray(chunk)
    base = np.array(h.batch_marginal_ln_likelihood(chunk))
    h.batch_get_posterior_samples(chunk[:10], 3, np.random.default_rng(0))
    after = np.array(h.batch_marginal_ln_likelihood(chunk)); print("history: bit-equal after posterior call", np.array_equal(base, after))
    single = np.array([np.array(h.batch_marginal_ln_likelihood(chunk[i:i+1]))[0] for i in range(len(chunk))]); print("alone vs batch", np.array_equal(single, base))
    rev = np.array(h.batch_marginal_ln_likelihood(np.ascontiguousarray(chunk[::-1])))[::-1]; print("reverse order", np.array_equal(rev, base))
    import pickle; h2 = pickle.loads(pickle.dumps(h)); print("pickled helper", np.array_equal(np.array(h2.batch_marginal_ln_likelihood(chunk)), base))
