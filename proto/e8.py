from ref import *
import os, tempfile, traceback, time, random
from astropy.time import Time
def mkdata(n, unit=u.km/u.s, base=56000., span=300., seed=0, errscale=1.):
    r = np.random.default_rng(seed)
    t = base + np.sort(r.uniform(0, span, n))
    return tj.RVData(t=t, rv=r.normal(0,5,n)*unit, rv_err=errscale*r.uniform(0.1,0.5,n)*unit)
def mksamples(N, s=0., pt=1, no=0, seed=1, lnp=False, t_ref=None):
    r = np.random.default_rng(seed)
    smp = tj.JokerSamples(poly_trend=pt, n_offsets=no, t_ref=t_ref)
    smp['P'] = r.uniform(2, 500, N)*u.day; smp['e'] = r.uniform(0,0.9,N); smp['omega']=r.uniform(0,6.28,N)*u.rad
    smp['M0']=r.uniform(0,6.28,N)*u.rad; smp['s']=np.full(N, s)*u.km/u.s
    if lnp: smp['ln_prior'] = r.normal(size=N)
    return smp
class RecGen(np.random.Generator):
    def __init__(self, bg):
        super().__init__(bg); self.log = []
    def uniform(self, *a, **k):
        out = super().uniform(*a, **k); self.log.append(('uniform', a, k, np.array(out))); return out
    def multivariate_normal(self, mean, cov, *a, **k):
        out = super().multivariate_normal(mean, cov, *a, **k); self.log.append(('mvn', np.array(mean), np.array(cov), k, np.array(out))); return out
    def choice(self, *a, **k):
        out = super().choice(*a, **k); self.log.append(('choice', a, k, np.array(out))); return out
data = mkdata(5, errscale=30.)
prior = tj.JokerPrior.default(P_min=2*u.day, P_max=500*u.day, sigma_K0=30*u.km/u.s, sigma_v=100*u.km/u.s)
smp = mksamples(40, lnp=True)
rg = RecGen(np.random.PCG64(5))
j = tj.TheJoker(prior, rng=rg)
out, lls = j.rejection_sample(data, smp, in_memory=True, return_all_logprobs=True, return_logprobs=True, n_linear_samples=1)
print([ (l[0],) for l in rg.log][:5], len(rg.log), len(out))
uu = rg.log[0][3]
acc = np.exp(lls - lls.max()) > uu
print("accepted idx", np.where(acc)[0][:10], "returned P match:", np.array_equal(np.repeat(smp["P"].value[acc],1), out['P'].value))
# check a, A for first accepted
i = np.where(acc)[0][0]
P,e,om,M0 = (smp[k][i].value for k in ['P','e','omega','M0'])
M = design(data._t_bmjd, data._t_ref_bmjd, np.zeros(len(data),int), 1, P,e,om,M0)
varK = min(30.**2/(1-e**2)*(P/365.25)**(-2/3), 500.**2)
Lam = np.array([varK, 100.**2]); Cinv = np.diag(1/data.rv_err.value**2)
Ainv = np.diag(1/Lam) + M.T@Cinv@M; A = np.linalg.inv(Ainv); a = A@(M.T@Cinv@data.rv.value)
print("a", a, rg.log[1][1], "A", A.ravel(), rg.log[1][2].ravel())
# file path w/ recording gen: children are spawned from seed seq - plain Generators, so mvn not recorded
rg = RecGen(np.random.PCG64(5))
j = tj.TheJoker(prior, rng=rg)
out2 = j.rejection_sample(data, smp, in_memory=False, n_linear_samples=2)
print("file path log kinds:", [l[0] for l in rg.log], np.array_equal(out2['P'].value, out['P'].value))

print("=== C04 identity")
ll_un = out.ln_unmarginalized_likelihood(data)
# ln p(x|theta) - ln N(x|a,A)
from scipy.stats import multivariate_normal as mvn, norm
k=0
for r in list(range(0, len(out), 1))[:3]:
    i = np.where(acc)[0][r]
    P,e,om,M0 = (smp[kk][i].value for kk in ['P','e','omega','M0'])
    M = design(data._t_bmjd, data._t_ref_bmjd, np.zeros(len(data),int), 1, P,e,om,M0)
    varK = min(30.**2/(1-e**2)*(P/365.25)**(-2/3), 500.**2); Lam = np.array([varK, 100.**2])
    Ainv = np.diag(1/Lam) + M.T@Cinv@M; A = np.linalg.inv(Ainv); a = A@(M.T@Cinv@data.rv.value)
    x = np.array([out['K'][r].value, out['v0'][r].value])
    lhs = out['ln_likelihood'][r]
    rhs = ll_un[r] + norm.logpdf(x, 0, np.sqrt(Lam)).sum() - mvn.logpdf(x, a, A)
    print(lhs, rhs, lhs-rhs)

print("=== C09 K logp with generate_linear")
s2 = prior.sample(size=6, generate_linear=True, return_logprobs=True, rng=np.random.default_rng(1))
from scipy.stats import beta
P = s2['P'].value; e = s2['e'].value; K = s2['K'].value; v0 = s2['v0'].value
sigK = np.clip(30.*(P/365.25)**(-1/3)/np.sqrt(1-e**2), 0, 500)
true = -np.log(P) - np.log(np.log(500/2)) + beta.logpdf(e, 0.867, 3.03) + norm.logpdf(K, 0, sigK) + norm.logpdf(v0, 0, 100.)
print("ln_prior", s2['ln_prior'].value); print("true   ", true); print("diff", s2['ln_prior'].value-true)
code_like = -P - np.log(np.log(500/2)) + beta.logpdf(e, 0.867, 3.03) + norm.logpdf(v0, 0, 100.)
print("resid K term", s2['ln_prior'].value - code_like, "vs true K term", norm.logpdf(K,0,sigK))
