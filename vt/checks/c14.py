"""C14 - iterative rejection sampling respects request, budget and acceptance rule."""
import numpy as np
from hypothesis import strategies as st

from vt import gens, rej
from vt.checks import c06
from vt.recgen import RecordingGenerator
from vt.runner import Violation

RULE = ("Scripted libraries of 2-80 [thorough 3000] rows with a likelihood profile class {flat, ties, huge range, "
        "random, single spike, only-the-last-row-likely (forces growth to the end), -inf rows}; n_requested_samples, "
        "init_batch_size, growth_factor 1-128, max_prior_samples, randomize_prior_order, n_linear_samples 1-3, "
        "in-memory / cache / file, n_batches, seeds; draws captured through a recording generator. Oracle, from the "
        "captured draws: sizes of successive uniform calls are the cumulative numbers of evaluated rows (strictly "
        "increasing, never above min(max_prior_samples, N)); the rows whose likelihood was requested form a prefix of "
        "the (captured) order without repeats; the result is a JokerSamples whose nonlinear rows are the first "
        "n_requested elements of {i: exp(ll_i - max over evaluated) > u_i} for the LAST uniform array, each with "
        "n_linear draws; an initial batch larger than the library / budget must raise; nothing but a JokerSamples may "
        "be returned. (end-to-end) the real kernel on generated data incl. finite-but-overflowing velocities. "
        "Non-trivial: more than one growth iteration, or a binding budget, or a truncation to n_requested, or a raise.")
SHARDS = {"quick": 4, "thorough": 16}
BUDGET = {"quick": 70, "thorough": 800}


def body_factory(ctx):
    import thejoker as tj

    def body(case):
        n = case["n"]
        lls = rej.profile_of(case)
        limit = n if (case["max_prior"] is None) else min(n, case["max_prior"])
        it = dict(n_requested_samples=case["n_requested"], init_batch_size=case["init_batch"],
                  growth_factor=case["growth"], max_prior_samples=case["max_prior"])
        too_small = case["init_batch"] > limit
        raised = None
        R = None
        try:
            R = rej.run_rejection(ctx, case, lls=lls, iterative=it, order_fn=c06.iter_order)
        except Violation:
            raise
        except Exception as e:
            raised = e
        cls = ["path:" + case["path"], "profile:" + case["profile"], "n_linear=%d" % case["n_linear"]]
        if too_small:
            if raised is None:
                raise Violation("initial batch (%d) exceeds the library / budget (%d) but the call returned"
                                % (case["init_batch"], limit), returned=type(R["res"]).__name__)
            ctx.note_case(case, True, cls + ["raised: library too small"])
            return
        finite = bool(np.all(np.isfinite(lls)))
        if raised is not None:
            if finite:
                raise Violation("iterative_rejection_sample raised %s for a large-enough library with finite "
                                "likelihoods: %s" % (type(raised).__name__, str(raised)[:200]))
            # -inf likelihoods: the in-memory path documents a non-finite guard; raising is a proper way to fail
            ctx.note_case(case, True, cls + ["raised on non-finite likelihoods"])
            return
        out, rg, helper, lib = R["res"], R["rg"], R["helper"], R["lib"]
        if not isinstance(out, tj.JokerSamples):
            raise Violation("iterative_rejection_sample returned a %s instead of a JokerSamples (failures must be "
                            "raised)" % type(out).__name__, value=repr(out)[:200])
        order = c06.iter_order(case, rg)
        if case["path"] != "mem" and len(order) != limit:
            raise Violation("evaluation order has %d entries, budget is %d" % (len(order), limit))
        un = rg.calls("uniform")
        sizes = [int(np.size(c["out"])) for c in un]
        if not sizes:
            raise Violation("no uniform draw was made")
        if any(b <= a for a, b in zip(sizes, sizes[1:])):
            raise Violation("numbers of evaluated samples are not strictly increasing", sizes=sizes)
        if sizes[-1] > limit:
            raise Violation("evaluated %d prior samples, more than the budget min(max_prior_samples, N) = %d"
                            % (sizes[-1], limit), sizes=sizes)
        asked = np.concatenate(helper.ll_calls) if helper.ll_calls else np.array([], dtype=int)
        if len(asked) != sizes[-1] or not np.array_equal(asked, order[:len(asked)]):
            raise Violation("likelihoods were not requested for a repeat-free prefix of the evaluation order",
                            asked=asked[:20], order=order[:20], sizes=sizes)
        ev = order[:sizes[-1]]
        if not np.isfinite(lls[ev]).any():
            ctx.classes["outside domain: all evaluated likelihoods -inf"] += 1
            return
        uu = np.asarray(un[-1]["out"], dtype=float)
        pos_all = rej.accepted_from(lls[ev], uu)
        pos = pos_all[:case["n_requested"]]
        rej.check_rows(out, lib, ev[pos], case["n_linear"])
        nt = len(sizes) > 1 or sizes[-1] == limit < n or len(pos) < len(pos_all)
        ctx.note_case(case, nt, cls + ["iterations=%s" % ("1" if len(sizes) == 1 else ("2-3" if len(sizes) <= 3 else ">3")),
                                       "budget binds" if sizes[-1] == limit else "stopped early",
                                       "got all requested" if len(pos) == case["n_requested"] else "fewer than requested"])

    return body


@st.composite
def cases(draw, max_n=80):
    case = draw(c06.iter_cases(max_n=max_n))
    case["profile"] = draw(st.sampled_from(["flat", "ties", "range", "random", "last_only", "spike", "neg_inf"]))
    case["return_logprobs"] = False
    # sometimes ask for an initial batch that is too large / leave init_batch_size to growth_factor * n_requested
    k = draw(st.integers(0, 9))
    if k == 0:
        case["init_batch"] = case["n"] + draw(st.integers(1, 5))
    elif k == 1:
        case["init_batch"] = None
    elif k == 2:
        # a budget larger than the library: the library size is what limits the run
        case["max_prior"] = case["n"] + draw(st.integers(1, 60))
        case["init_batch"] = draw(st.one_of(st.integers(1, case["n"]), st.integers(case["n"] + 1, case["max_prior"])))
    return case


def _fix_init(case):
    if case["init_batch"] is None:
        case = dict(case)
        case["init_batch_none"] = True
        case["init_batch"] = case["growth"] * case["n_requested"]
    return case


# ----------------------------------------------------------------------------- real kernel
@st.composite
def real_cases(draw):
    spec = draw(gens.problems(max_surveys=1, max_epochs=6, max_poly=1, n_rows=(6, 40), units=False))
    n = len(spec["rows"])
    spec["opts"] = {"n_requested": draw(st.integers(1, 6)), "init_batch": draw(st.integers(1, n)),
                    "growth": draw(st.sampled_from([1, 2, 8])), "max_prior": draw(st.one_of(st.none(), st.integers(1, n))),
                    "path": draw(st.sampled_from(["mem", "cache"])), "rng_seed": draw(st.integers(0, 2**32 - 1)),
                    "huge": draw(st.integers(0, 5)) == 0}
    return spec


def real_body_factory(ctx):
    import astropy.units as u

    import thejoker as tj

    def body(spec):
        o = spec["opts"]
        if o["huge"]:
            # finite input whose chi^2 overflows: the likelihoods are not finite, the call has to fail by raising
            spec = dict(spec, surveys=[dict(s, rv=[1e160 * (1 + k) for k in range(len(s["rv"]))]) for s in spec["surveys"]])
        data = gens.build_data(spec)
        prior = gens.build_prior(spec["prior"])
        smp = gens.build_samples(spec)
        n = len(smp)
        limit = n if o["max_prior"] is None else min(n, o["max_prior"])
        rg = RecordingGenerator(np.random.PCG64(o["rng_seed"]))
        joker = tj.TheJoker(prior, rng=rg)
        raised = None
        try:
            out = joker.iterative_rejection_sample(data, smp, n_requested_samples=o["n_requested"],
                                                   init_batch_size=o["init_batch"], growth_factor=o["growth"],
                                                   max_prior_samples=o["max_prior"], in_memory=o["path"] == "mem")
        except Exception as e:
            raised = e
        if raised is None and not isinstance(out, tj.JokerSamples):
            raise Violation("iterative_rejection_sample returned a %s instead of a JokerSamples (failures must be "
                            "raised)" % type(out).__name__, value=repr(out)[:200])
        if o["init_batch"] > limit and raised is None:
            raise Violation("initial batch exceeds the budget but the call returned")
        if raised is not None:
            if o["init_batch"] <= limit and not o["huge"]:
                raise Violation("iterative_rejection_sample raised for valid input: %r" % (raised,))
            ctx.note_case(spec, True, ["real:raised"])
            return
        sizes = [int(np.size(c["out"])) for c in rg.calls("uniform")]
        if sizes and sizes[-1] > limit:
            raise Violation("evaluated %d prior samples, more than the budget %d" % (sizes[-1], limit), sizes=sizes)
        P_lib = smp["P"].to_value(u.day)
        P_out = out["P"].to_value(u.day)
        if len(out) > o["n_requested"] or not set(P_out.tolist()) <= set(P_lib[:max(sizes or [n])].tolist()):
            raise Violation("returned rows are not (at most n_requested) evaluated prior samples")
        ctx.note_case(spec, len(sizes) > 1 or (sizes and sizes[-1] == limit < n), ["real:returned", "real:path:" + o["path"]])

    return body


def run(ctx):
    big = not ctx.quick
    body = body_factory(ctx)
    ctx.search("scripted", cases(max_n=3000 if big else 80).map(_fix_init), body, quick=1500, thorough=30000)
    ctx.search("real_kernel", real_cases(), real_body_factory(ctx), quick=200, thorough=5000)
