"""Base class for the rule-based state machines: every executed step is appended to a JSON-able
log (the replay file of a failing history) and can be re-executed without Hypothesis."""
from hypothesis.stateful import RuleBasedStateMachine

from vt.runner import Violation


class LoggedMachine(RuleBasedStateMachine):
    _holder = {}
    _ctx = None

    def __init__(self):
        super().__init__()
        self.log = []
        self.setup()

    def setup(self):
        pass

    def step(self, op, **args):
        self.log.append([op, args])
        type(self)._holder["last_log"] = [list(x) for x in self.log]
        try:
            getattr(self, "do_" + op)(**args)
        except Violation as v:
            type(self)._holder.setdefault("first", ([list(x) for x in self.log], v))
            raise
        except Exception as e:
            import traceback
            v = Violation("the check could not interpret the behaviour of the code under test: %s: %s"
                          % (type(e).__name__, str(e)[:300]), traceback=traceback.format_exc(limit=-8))
            type(self)._holder.setdefault("first", ([list(x) for x in self.log], v))
            raise v from e

    def teardown(self):
        try:
            self.finish()
        finally:
            self.cleanup()

    def finish(self):
        """Called once at the end of a history (may raise Violation)."""

    def cleanup(self):
        pass

    @classmethod
    def replay_log(cls, log):
        m = cls.__new__(cls)
        RuleBasedStateMachine.__init__(m)
        m.log = []
        m.setup()
        try:
            for op, args in log:
                m.step(op, **args)
            m.finish()
        finally:
            m.cleanup()
