"""C15 - RVData preserves the observations it is given."""
import numpy as np
from hypothesis import strategies as st

from vt import gens
from vt import oracle_gauss as og
from vt.runner import Violation

RULE = ("1-40 [thorough 120] epochs in random order with duplicates, times as float BMJD or Time (tcb / utc), velocity "
        "and error units drawn independently, 1-D errors or full symmetric covariances, NaN / +-inf injected at random "
        "positions of t (float input), rv and err (rows+columns for covariances), clean on/off, t_ref in {default, "
        "False, explicit Time}; then copy() and slices / index arrays / boolean masks. Every observation carries a tag "
        "(its serial number) in the velocity and a unique error, so pairing is decidable from the stored arrays. "
        "Oracle: retained multiset == finite inputs (all inputs if clean=False); non-decreasing times; each time still "
        "paired with its own velocity and uncertainty (covariance row/column); units as supplied; ivar == 1/sigma^2 or "
        "inv(cov); default t_ref == earliest retained time; copy() equal in every array and in t_ref; data[slc] == the "
        "corresponding observations. Non-trivial: unsorted input with >=3 epochs and (a dropped row, a duplicate time, "
        "a covariance, or a non-default t_ref)."
        ' Also: time input and t_ref on the tdb / tt / tai scales.')
SHARDS = {"quick": 2, "thorough": 16}
BUDGET = {"quick": 60, "thorough": 600}


@st.composite
def cases(draw, max_n=40):
    n = draw(st.integers(1, max_n))
    t0 = draw(gens.fl(45000.0, 60000.0))
    base = draw(gens.logfloat(1e-2, 1e3))
    pool = [gens.rounded(t0 + draw(gens.fl(0, base)), 12) for _ in range(max(1, (n + 1) // 2))]
    t = [pool[draw(st.integers(0, len(pool) - 1))] if draw(st.integers(0, 3)) == 0 else gens.rounded(t0 + draw(gens.fl(0, base)), 12)
         for _ in range(n)]
    case = {"n": n, "t": t, "time_input": draw(st.sampled_from(["float", "float", "tcb", "utc", "tdb", "tt", "tai"])),
            "t_ref_scale": draw(st.sampled_from(["tcb", "tcb", "utc", "tdb", "tt"])),
            "rv_unit": draw(st.sampled_from(og.VEL_UNITS)), "err_unit": draw(st.sampled_from(og.VEL_UNITS)),
            "cov": draw(st.integers(0, 3)) == 0, "clean": draw(st.sampled_from([True, True, True, False])),
            "t_ref": draw(st.sampled_from(["default", "default", "false", "time"])),
            "t_ref_val": gens.rounded(t0 + draw(gens.fl(-10, 10)), 9),
            # overall size of the uncertainties (sub-m/s precision given in km/s up to huge values)
            # (1e-170: finite, positive uncertainties whose squares underflow - the inverse variance is then inf)
            "err_scale": draw(st.sampled_from([1.0, 1.0, 1e-6, 1e-4, 1e3, 1e-170])),
            "bad": {}}
    nbad = draw(st.integers(0, min(4, n)))
    for _ in range(nbad):
        i = draw(st.integers(0, n - 1))
        where = draw(st.sampled_from(["rv", "err", "t"]))
        if where == "t" and (case["time_input"] != "float" or not case["clean"]):
            where = "rv"
        case["bad"]["%s:%d" % (where, i)] = draw(st.sampled_from(["nan", "inf", "-inf"]))
    if case["time_input"] == "float" and case["clean"] and n >= 3 and draw(st.integers(0, 5)) == 0:
        # ascending blocks in descending order, separated by rows whose time is nan (every step back in time happens next to
        # a nan: to a comparison-based "is it sorted?" test the column looks sorted)
        srt = sorted(t)
        k = draw(st.integers(0, n - 3))
        case["t"] = srt[k + 2:] + [srt[k + 1]] + srt[:k + 1]
        case["bad"] = {"t:%d" % (n - k - 2): "nan"}
    if case["cov"] and case["err_scale"] < 1e-100:
        case["err_scale"] = 1.0       # (a covariance of squared 1e-170 values is the zero matrix: not invertible, not valid input)
    if case["cov"]:
        # NaN inside a covariance: symmetric partner index
        case["cov_partner"] = draw(st.integers(0, n - 1))
    # index expressions applied to the constructed (sorted, cleaned) data
    case["slices"] = [draw(st.tuples(st.one_of(st.none(), st.integers(-n - 1, n + 1)),
                                     st.one_of(st.none(), st.integers(-n - 1, n + 1)),
                                     st.one_of(st.none(), st.integers(1, 3)))) for _ in range(2)]
    case["index_seed"] = draw(st.integers(0, 10**6))
    return case


def _val(tok):
    return {"nan": np.nan, "inf": np.inf, "-inf": -np.inf}[tok]


def build(case):
    import astropy.units as u
    from astropy.time import Time

    from thejoker import RVData

    n = case["n"]
    t = np.array(case["t"], dtype=float)
    tag = np.arange(n, dtype=float) + 1.0
    sc_ = float(case.get("err_scale", 1.0))
    sig = sc_ * (1.0 + 0.001 * tag)
    rv = tag.copy()
    bad_rows = set()
    if case["cov"]:
        err = np.diag(sig ** 2)
        for i in range(n):
            for j in range(i):
                err[i, j] = err[j, i] = sc_ ** 2 * 0.3 * (1.0 + 1e-3 * (tag[i] + tag[j])) / n
    else:
        err = sig.copy()
    for key, tok in case["bad"].items():
        where, i = key.split(":")
        i = int(i)
        if where == "t":
            t[i] = _val(tok)
            bad_rows.add(i)
        elif where == "rv":
            rv[i] = _val(tok)
            bad_rows.add(i)
        else:
            if case["cov"]:
                j = case["cov_partner"]
                err[i, j] = err[j, i] = _val(tok)
                bad_rows.update([i, j])
            else:
                err[i] = _val(tok)
                bad_rows.add(i)
    ru, eu = og.unit(case["rv_unit"]), og.unit(case["err_unit"])
    if case["time_input"] == "float":
        t_in, t_eff = t, t
    else:
        tt = Time(t, format="mjd", scale="tcb")
        if case["time_input"] != "tcb":
            tt = getattr(tt, case["time_input"])     # the same instants, expressed on another time scale
        t_in, t_eff = tt, tt.tcb.mjd
    kw = {"clean": case["clean"]}
    if case["t_ref"] == "false":
        kw["t_ref"] = False
    elif case["t_ref"] == "time":
        kw["t_ref"] = Time(case["t_ref_val"], format="mjd", scale="tcb")
        if case.get("t_ref_scale", "tcb") != "tcb":
            kw["t_ref"] = getattr(kw["t_ref"], case["t_ref_scale"])
    data = RVData(t=t_in, rv=rv * ru, rv_err=err * (eu ** 2 if case["cov"] else eu), **kw)
    return data, dict(t=np.asarray(t_eff, dtype=float), tag=tag, sig=sig, err=err, bad=bad_rows, ru=ru, eu=eu, rv=rv)


def check_obs(case, d, ref, keep, what):
    """`d` must hold exactly the observations `keep` (indices into the input, multiset), paired and time-ordered."""
    import astropy.units as u

    if len(d) != len(keep):
        raise Violation("%s holds %d observations, expected %d" % (what, len(d), len(keep)), keep=sorted(keep)[:20])
    if d.rv.unit != ref["ru"]:
        raise Violation("%s: velocity unit changed from %s to %s" % (what, ref["ru"], d.rv.unit))
    want_eu = ref["eu"] ** 2 if case["cov"] else ref["eu"]
    if d.rv_err.unit != want_eu:
        raise Violation("%s: uncertainty unit changed from %s to %s" % (what, want_eu, d.rv_err.unit))
    n_d = len(d)
    want_shape = (n_d, n_d) if case["cov"] else (n_d,)
    if np.shape(d.rv_err.value) != want_shape or np.shape(d.rv.value) != (n_d,) or np.shape(d._t_bmjd) != (n_d,):
        raise Violation("%s: stored arrays have inconsistent shapes (a covariance must stay a matrix, errors a vector)" % what,
                        t=np.shape(d._t_bmjd), rv=np.shape(d.rv.value), rv_err=np.shape(d.rv_err.value), expected_rv_err=want_shape)
    tb = np.asarray(d._t_bmjd, dtype=float)
    finite_t = tb[np.isfinite(tb)]
    if np.any(np.diff(finite_t) < 0):
        raise Violation("%s: times are not in non-decreasing order" % what, t=tb[:20])
    rvv = np.asarray(d.rv.value, dtype=float)
    # identify each stored row through its uncertainty (unique per observation, never corrupted together with rv)
    if case["cov"]:
        sigs = np.sqrt(np.abs(np.diag(np.asarray(d.rv_err.value))))
    else:
        sigs = np.asarray(d.rv_err.value, dtype=float)
    rows = []
    for k in range(len(d)):
        s = sigs[k]
        if np.isfinite(s):
            i = int(round((s / float(case.get("err_scale", 1.0)) - 1.0) / 0.001)) - 1
        elif np.isfinite(rvv[k]):
            i = int(round(rvv[k])) - 1
        else:
            i = None
        rows.append(i)
    known = [i for i in rows if i is not None]
    if sorted(known) != sorted(i for i in keep if i in known) or len(set(known) - set(keep)):
        raise Violation("%s does not hold exactly the expected observations" % what, got=sorted(known)[:20],
                        want=sorted(keep)[:20])
    if len(known) == len(rows) and sorted(rows) != sorted(keep):
        raise Violation("%s does not hold exactly the expected observations (multiset)" % what, got=sorted(rows)[:20],
                        want=sorted(keep)[:20])
    for k, i in enumerate(rows):
        if i is None or not (0 <= i < case["n"]):
            continue
        # time / velocity / uncertainty of observation i still together
        ti = ref["t"][i]
        if not (tb[k] == ti or (np.isnan(tb[k]) and np.isnan(ti))):
            raise Violation("%s: observation %d lost its time" % (what, i), stored=tb[k], given=ti)
        ri = ref["rv"][i]
        if not (rvv[k] == ri or (np.isnan(rvv[k]) and np.isnan(ri))):
            raise Violation("%s: observation %d lost its velocity" % (what, i), stored=rvv[k], given=ri)
    if case["cov"] and all(i is not None for i in rows):
        sub = ref["err"][np.ix_(rows, rows)]
        got = np.asarray(d.rv_err.value)
        if not np.array_equal(got, sub, equal_nan=True):
            raise Violation("%s: covariance rows/columns are not those of the retained observations" % what)
    return rows


def body_factory(ctx):
    import astropy.units as u
    from astropy.time import Time

    def body(case):
        try:
            with ctx.sut("RVData(...)"):
                data, ref = build(case)
        except Violation:
            # a data set without a single finite observation cannot be constructed (no earliest time): outside
            # the property's domain
            n_bad = len({int(k.split(":")[1]) for k in case["bad"]} | ({case["cov_partner"]} if case["cov"] and any(
                k.startswith("err") for k in case["bad"]) else set()))
            if case["clean"] and n_bad >= case["n"]:
                ctx.classes["outside domain: no finite observation"] += 1
                return
            raise
        n = case["n"]
        keep = [i for i in range(n) if not (case["clean"] and i in ref["bad"])]
        rows = check_obs(case, data, ref, keep, "RVData")
        finite = all(np.isfinite(ref["t"][i]) and np.isfinite(ref["rv"][i]) for i in keep) and not (set(keep) & ref["bad"])
        # ivar
        if finite and len(keep):
            with ctx.sut("ivar"):
                iv = data.ivar
            if case["cov"]:
                cov_ = np.asarray(data.rv_err.value)
                prod = np.asarray(iv.value) @ cov_
                if np.shape(iv.value) != cov_.shape or not (np.max(np.abs(prod - np.eye(len(cov_)))) <= 1e-8) \
                        or not iv.unit.is_equivalent(1 / ref["eu"] ** 2):
                    raise Violation("ivar is not the inverse covariance (ivar @ cov != identity)",
                                    max_dev=float(np.max(np.abs(prod - np.eye(len(cov_))))) if np.shape(iv.value) == cov_.shape else None,
                                    err_scale=case.get("err_scale"))
            else:
                with np.errstate(divide="ignore", over="ignore"):
                    want = 1.0 / np.asarray(data.rv_err.value) ** 2
                if not np.allclose(np.asarray(iv.to_value(1 / ref["eu"] ** 2)), want, rtol=1e-12, atol=0):
                    raise Violation("ivar is not 1/sigma^2", got=np.asarray(iv.value)[:5], want=want[:5])
        # ---- the same object after its uncertainties were changed through the public attribute (error bars inflated before
        # a second fit): derived quantities must follow
        if finite and len(keep) and not case["cov"] and case.get("err_scale", 1.0) >= 1e-100:
            old_err = data.rv_err.copy()
            with ctx.sut("ivar after rv_err was re-assigned"):
                data.rv_err = old_err * 3.0
                iv2 = data.ivar
            want2 = 1.0 / np.asarray((old_err * 3.0).value) ** 2
            if not np.allclose(np.asarray(iv2.to_value(1 / ref["eu"] ** 2)), want2, rtol=1e-12, atol=0):
                raise Violation("ivar does not follow rv_err after the uncertainties were changed on the same object",
                                got=np.asarray(iv2.value)[:5], want=want2[:5])
            data.rv_err = old_err
        # reference epoch
        if case["t_ref"] == "false":
            if data.t_ref is not None or data._t_ref_bmjd != 0.0:
                raise Violation("t_ref=False must disable the reference epoch", t_ref=repr(data.t_ref))
        elif case["t_ref"] == "time":
            if data.t_ref is None or abs(data.t_ref.tcb.mjd - case["t_ref_val"]) > 1e-9 or data._t_ref_bmjd != data.t_ref.tcb.mjd:
                raise Violation("explicit t_ref not kept", t_ref=repr(data.t_ref))
        elif len(keep) and finite:
            tmin = min(ref["t"][i] for i in keep)
            if data.t_ref is None or data.t_ref.tcb.mjd != tmin or data._t_ref_bmjd != tmin:
                raise Violation("default t_ref is not the earliest retained time", t_ref=repr(data.t_ref), earliest=tmin)
        sliced = 0
        if finite and len(keep) >= 1:
            # copy
            with ctx.sut("copy()"):
                c = data.copy()
            check_obs(case, c, ref, keep, "copy()")
            a = None if data.t_ref is None else data.t_ref.tcb.mjd
            b = None if c.t_ref is None else c.t_ref.tcb.mjd
            if a != b or c._t_ref_bmjd != data._t_ref_bmjd:
                raise Violation("copy() does not keep the reference epoch", original=a, copy=b,
                                original_t_ref_bmjd=data._t_ref_bmjd, copy_t_ref_bmjd=c._t_ref_bmjd)
            # slicing / indexing
            m = len(data)
            g = np.random.default_rng(case["index_seed"])
            exprs = [("slice", slice(*s)) for s in case["slices"]]
            exprs.append(("index_array", g.integers(0, m, size=int(g.integers(1, m + 1)))))
            exprs.append(("mask", g.random(m) < 0.6))
            for kind, ix in exprs:
                sel = np.arange(m)[ix]
                if len(sel) == 0:
                    continue  # empty data sets are not constructible (t.min() of nothing): not part of the property
                with ctx.sut("data[%s]" % kind):
                    sub = data[ix]
                check_obs(case, sub, ref, [rows[j] for j in sel], "data[%s]" % kind)
                sliced += 1
        unsorted = any(b < a for a, b in zip(case["t"], case["t"][1:]))
        dup = len(set(case["t"])) < n
        nt = unsorted and n >= 3 and (len(keep) < n or dup or case["cov"] or case["t_ref"] != "default")
        ctx.note_case(case, nt, ["time:" + case["time_input"], "cov" if case["cov"] else "1d-err",
                                 "clean=%s" % case["clean"], "t_ref:" + case["t_ref"],
                                 "dropped=%d" % min(3, n - len(keep)), "dup_times" if dup else "distinct_times",
                                 "sliced=%d" % sliced])

    return body


def run(ctx):
    ctx.search("rvdata", cases(max_n=120 if not ctx.quick else 40), body_factory(ctx), quick=2500, thorough=60000)
