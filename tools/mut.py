#!/usr/bin/env python3
"""Sensitivity helper: apply a textual mutation (or a patch file) to a scratch worktree of
/repo (never /repo itself), run the named checks against it with VERIF_REPO, remove the worktree.

  tools/mut.py C16[,C05] thejoker/utils.py 'if i < rmdr' 'if i <= rmdr' [--tier quick] [--count N]
  tools/mut.py C16 --patch /path/to/patch.diff
Prints exit code of each check (1 expected = mutant caught).
"""
import argparse, os, shutil, subprocess, sys, tempfile

ap = argparse.ArgumentParser()
ap.add_argument("props")
ap.add_argument("file", nargs="?")
ap.add_argument("old", nargs="?")
ap.add_argument("new", nargs="?")
ap.add_argument("--patch")
ap.add_argument("--tier", default="quick")
ap.add_argument("--count", type=int, default=1, help="which occurrence to replace (1-based), 0 = all")
ap.add_argument("--keep", action="store_true")
ap.add_argument("--tests", action="store_true", help="also run the pinned stable test-suite on the mutant")
a = ap.parse_args()
wt = tempfile.mkdtemp(prefix="vtmut_", dir="/tmp")
os.rmdir(wt)
subprocess.run(["git", "-C", "/repo", "worktree", "add", "--detach", wt, "HEAD"], check=True, capture_output=True)
try:
    # uncommitted edits of /repo are carried over too
    d = subprocess.run(["git", "-C", "/repo", "diff", "HEAD"], capture_output=True, check=True).stdout
    if d.strip():
        subprocess.run(["git", "-C", wt, "apply"], input=d, check=True)
    for f in os.listdir("/repo/thejoker/src"):
        if f.endswith((".c", ".so")):
            shutil.copy2(os.path.join("/repo/thejoker/src", f), os.path.join(wt, "thejoker/src", f))
    if os.path.exists("/repo/thejoker/_version.py"):
        shutil.copy2("/repo/thejoker/_version.py", os.path.join(wt, "thejoker/_version.py"))
    if a.patch:
        subprocess.run(["git", "-C", wt, "apply", os.path.abspath(a.patch)], check=True)
    else:
        p = os.path.join(wt, a.file)
        s = open(p).read()
        n = s.count(a.old)
        if n == 0:
            sys.exit("pattern not found")
        if a.count == 0:
            s = s.replace(a.old, a.new)
        else:
            parts = s.split(a.old)
            s = a.old.join(parts[:a.count]) + a.new + a.old.join(parts[a.count:])
        open(p, "w").write(s)
    print(subprocess.run(["git", "-C", wt, "diff", "--stat"], capture_output=True, text=True).stdout.strip())
    env = dict(os.environ, VERIF_REPO=wt, VERIF_EVIDENCE_DIR="/tmp/vtmut_evidence")
    for prop in a.props.split(","):
        r = subprocess.run(["/verif/check", prop, "--tier", a.tier], env=env, capture_output=True, text=True)
        allout = [l for l in (r.stdout + r.stderr).strip().split("\n") if l.strip() and "Erfa" not in l and "warn(" not in l]
        tail = [l for l in allout if l.startswith("violation in")][:2] + [l for l in allout if l.startswith(("VIOLATION", "HARNESS"))][:2] + allout[-1:]
        print("== %s exit=%d %s" % (prop, r.returncode, "CAUGHT" if r.returncode == 1 else ("MISSED" if r.returncode == 0 else "HARNESS-ERROR")))
        for l in tail:
            print("   " + l[:300])
    if a.tests:
        r = subprocess.run(["/venv/bin/python", "-m", "pytest", "-q", "-p", "no:cacheprovider", "-x", "--timeout=900",
                            "thejoker/tests/test_data.py", "thejoker/tests/test_utils.py", "thejoker/tests/test_samples_analysis.py",
                            "thejoker/tests/test_likelihood_helpers.py"], cwd=wt, capture_output=True, text=True,
                           env=dict(os.environ, PYTHONPATH=wt))
        print("tests:", r.stdout.strip().split("\n")[-1])
finally:
    if not a.keep:
        subprocess.run(["git", "-C", "/repo", "worktree", "remove", "--force", wt], capture_output=True)
        shutil.rmtree(wt, ignore_errors=True)
        subprocess.run(["git", "-C", "/repo", "worktree", "prune"], capture_output=True)
