"""Shared driver for the rejection-sampling properties (C02, C06, C14): generated option sets run
through the real public methods with a scripted helper (vt.fakes) and a recording / steering
generator; the expected outcome is recomputed from the captured draws."""
import os

import numpy as np
from hypothesis import strategies as st

from vt import fakes
from vt.recgen import RecordingPool, SteeringGenerator
from vt.runner import Violation


@st.composite
def rejection_cases(draw, max_n=60, logprobs=False):
    n = draw(st.one_of(st.integers(1, 12), st.integers(1, max_n)))
    case = {
        "n": n,
        "profile": draw(st.sampled_from(fakes.PROFILES[:6])),
        "profile_seed": draw(st.integers(0, 10**6)),
        # log-likelihoods carry an arbitrary additive constant (number of epochs, units of the data): far outside the
        # range where exp() of the raw value is representable
        "ll_shift": draw(st.sampled_from([0.0, 0.0, 0.0, -3000.0, 2500.0, -1e5])),
        "path": draw(st.sampled_from(["mem", "cache", "file"])),
        "lib_history": draw(st.sampled_from([None, None, None, None, "pack_units", "setitem", "inplace"])),
        "n_prior": draw(st.one_of(st.none(), st.integers(1, n))),
        "max_post": draw(st.one_of(st.none(), st.integers(1, n + 2))),
        "n_linear": draw(st.sampled_from([1, 1, 2, 3])),
        "randomize": draw(st.booleans()),
        "n_batches": draw(st.one_of(st.none(), st.integers(1, n + 3))),
        "pool_size": draw(st.integers(1, 4)),
        "pool_order": draw(st.sampled_from([None, None, "reverse"])),
        "rng_seed": draw(st.integers(0, 2**32 - 1)),
        "steer": draw(st.sampled_from([None, None, "atoms"])),
        "steer_seed": draw(st.integers(0, 10**6)),
        # stored units of the library columns (the sampler converts them to day / rad / data unit)
        "lib_units": draw(st.one_of(st.none(), st.fixed_dictionaries({
            "P": st.sampled_from(["d", "yr", "h"]), "omega": st.sampled_from(["rad", "deg"]),
            "M0": st.sampled_from(["rad", "deg"]), "s": st.sampled_from(["km/s", "m/s"])}))),
    }
    if logprobs:
        case["return_logprobs"] = draw(st.booleans())
        case["return_all"] = draw(st.booleans())
    else:
        case["return_logprobs"] = draw(st.sampled_from([False, False, True]))
    # libraries whose recorded ln_prior is -inf for some rows (e.g. evaluated under a narrower prior): the rejection step
    # looks at the likelihood only
    case["ln_prior_neg_inf"] = draw(st.sampled_from([False, False, True]))
    # column dtypes of the library: all double, the period column in single precision, or everything in single precision
    # (prior.sample(dtype=float32)); only for libraries stored in the sampler's internal units
    case["lib_dtype"] = draw(st.sampled_from([None, None, None, "P_f4", "all_f4"])) if case["lib_units"] is None else None
    return case


@st.composite
def large_cases(draw, logprobs=False):
    """Libraries large enough for implementations that treat big batches specially (block-wise reads, memory bounds):
    tens of thousands of rows per batch, few batches."""
    case = draw(rejection_cases(max_n=4, logprobs=logprobs))
    per = draw(st.sampled_from([8192, 16384, 32768, 65536]))
    nb = draw(st.sampled_from([2, 2, 3]))
    case.update(n=per * nb + draw(st.integers(1, 9)) if per <= 32768 else per + draw(st.integers(1, 9)),
                n_batches=nb, path=draw(st.sampled_from(["file", "cache"])), n_prior=None, max_post=None, n_linear=1,
                profile=draw(st.sampled_from(["spike", "range", "last_only"])), steer=None, lib_units=None, lib_history=None,
                pool_order=None, ln_prior_neg_inf=False, randomize=draw(st.sampled_from([True, True, False])))
    return case


def profile_of(case):
    vals = np.random.default_rng(case["profile_seed"]).random(case["n"])
    return fakes.make_profile(case["profile"], case["n"], vals) + float(case.get("ll_shift", 0.0))


def evaluation_order(case, rg):
    """Documented evaluation order of the library rows for this option set."""
    n = case["n"]
    if case["path"] == "mem":
        return np.arange(n)  # n_prior_samples / randomize_prior_order apply to files only
    n_prior = case["n_prior"] or n
    if case["randomize"]:
        ch = rg.calls("choice")
        if len(ch) != 1:
            raise Violation("randomize_prior_order=True: expected exactly one rng.choice call on the sampler's "
                            "generator, saw %d" % len(ch))
        pop = ch[0]["args"][0] if ch[0]["args"] else ch[0]["kwargs"].get("a")
        if not (np.ndim(pop) == 0 and int(pop) == n):
            raise Violation("the shuffled evaluation order is not drawn from the whole library (%d rows)" % n, population=repr(pop)[:80])
        idx = np.asarray(ch[0]["out"])
        if len(idx) != n_prior or len(set(idx.tolist())) != len(idx) or idx.min() < 0 or idx.max() >= n:
            raise Violation("shuffled order is not %d distinct rows of the library" % n_prior, idx=idx)
        return idx
    return np.arange(n_prior)


def make_steer(case, lls, rg_holder, order_fn=None):
    """Callable producing the uniform array: atoms at 0, just below and just above each acceptance ratio."""
    if case.get("steer") != "atoms":
        return None

    def f(shape):
        rg = rg_holder[0]
        n = int(np.prod(shape))
        order = (order_fn or evaluation_order)(case, rg)[:n]
        if len(order) != n:
            raise Violation("uniform(size=%d) requested but %d samples are being evaluated" % (n, len(order)))
        ll = lls[order]
        with np.errstate(invalid="ignore"):
            r = np.exp(ll - np.max(ll))
        g = np.random.default_rng(case["steer_seed"])
        kind = g.integers(0, 4, size=n)
        u = g.random(n)
        u = np.where(kind == 1, r * (1 - 1e-12), u)   # just below the ratio  -> must be kept
        u = np.where(kind == 2, r * (1 + 1e-12), u)   # just above the ratio  -> must be dropped
        u = np.where(kind == 3, 0.0, u)               # 0.0 is a possible outcome of uniform [0, 1)
        u = np.where(u >= 1.0, np.nextafter(1.0, 0.0), u)
        return u.reshape(shape)

    return f


def run_rejection(ctx, case, lib=None, lls=None, iterative=None, order_fn=None):
    """Run (iterative_)rejection_sample as the case says.  Returns a dict with everything observable."""
    import thejoker as tj

    n = case["n"]
    lls = profile_of(case) if lls is None else lls
    helper = fakes.ScriptedHelper(lls)
    if lib is None:
        lib = fakes.scripted_library(n, units=case.get("lib_units"))
        # make the stored ln_prior values specific to this library (a value cached from another one must show)
        lib["ln_prior"] = np.asarray(lib["ln_prior"]) - 0.001 * (case.get("profile_seed", 0) % 997)
        if case.get("ln_prior_neg_inf"):
            lp_ = np.asarray(lib["ln_prior"], dtype=float).copy()
            lp_[(np.arange(n) + case.get("profile_seed", 0)) % 3 == 0] = -np.inf
            lib["ln_prior"] = lp_
        if case.get("lib_dtype") and not case.get("lib_units"):
            for nm_ in (("P",) if case["lib_dtype"] == "P_f4" else ("P", "e", "omega", "M0", "s")):
                lib[nm_] = lib[nm_].astype(np.float32)
        from vt import gens as _gens
        _gens.age_samples(lib, case.get("lib_history"))
    holder = [None]
    steer = make_steer(case, lls, holder, order_fn)
    rg = SteeringGenerator(np.random.PCG64(case["rng_seed"]), uniforms=[steer] * 200 if steer else None)
    holder[0] = rg
    pool = RecordingPool(size=case.get("pool_size", 1), order=case.get("pool_order"))
    prior = _dummy_prior()
    joker = fakes.install(tj.TheJoker(prior, rng=rg, pool=pool), helper)
    path = case["path"]
    if path == "file":
        src = os.path.join(ctx.workdir, "rejlib.hdf5")
        lib.write(src, overwrite=True)
    else:
        src = lib
    kw = dict(n_linear_samples=case["n_linear"], in_memory=(path == "mem"))
    if case.get("return_logprobs"):
        kw["return_logprobs"] = True
    if iterative is None:
        kw.update(max_posterior_samples=case["max_post"], n_prior_samples=case["n_prior"],
                  randomize_prior_order=case["randomize"], n_batches=case["n_batches"])
        if case.get("return_all"):
            kw["return_all_logprobs"] = True
        res = joker.rejection_sample(None, src, **kw)
    else:
        kw.update(iterative)
        kw.update(randomize_prior_order=case["randomize"], n_batches=case["n_batches"])
        res = joker.iterative_rejection_sample(None, src, **kw)
    return {"res": res, "rg": rg, "pool": pool, "helper": helper, "lib": lib, "lls": lls}


_PRIOR = []


def _dummy_prior():
    # any valid JokerPrior: TheJoker only type-checks it when a helper is installed by hand
    if not _PRIOR:
        import astropy.units as u

        import thejoker as tj

        _PRIOR.append(tj.JokerPrior.default(P_min=1 * u.day, P_max=10 * u.day, sigma_K0=1 * u.km / u.s,
                                            sigma_v=1 * u.km / u.s))
    return _PRIOR[0]


def accepted_from(lls_eval, uu, limit=None):
    with np.errstate(invalid="ignore"):
        good = np.where(np.exp(lls_eval - np.max(lls_eval)) > uu)[0]
    return good if limit is None else good[:limit]


def check_rows(out, lib, rows, n_linear, what="returned"):
    """Nonlinear columns of `out` are bit-for-bit library rows `rows`, each repeated n_linear times; K encodes the
    library row the posterior step was given (scripted helper)."""
    import astropy.units as u

    want = np.repeat(np.asarray(rows, dtype=int), n_linear)
    if len(out) != len(want):
        raise Violation("%s table has %d rows, expected %d accepted samples x %d linear draws"
                        % (what, len(out), len(rows), n_linear), rows=list(map(int, rows)))
    internal = {"P": u.day, "e": u.one, "omega": u.rad, "M0": u.rad, "s": u.km / u.s}
    for nm in ("P", "e", "omega", "M0", "s"):
        exact = lib[nm].unit == internal[nm]
        got = np.asarray(out[nm].to_value(internal[nm]))
        exp = np.asarray(lib[nm].to_value(internal[nm]))[want]
        # bit-for-bit when the library is stored in the sampler's internal units; otherwise the two paths
        # convert by different routes (Quantity.to_value vs. value * factor): allow 4 ulp
        ok = np.array_equal(got, exp) if exact else np.allclose(got, exp, rtol=1e-15 * 4, atol=0)
        if not ok:
            raise Violation("%s column %s is not the unmodified value of the evaluated prior samples, in evaluation "
                            "order" % (what, nm), got=got[:12], expected=exp[:12], library_unit=str(lib[nm].unit))
    K = np.asarray(out["K"].to_value(u.km / u.s))
    if not np.array_equal(K, want.astype(float)):
        raise Violation("linear parameters were generated for other rows than the accepted ones",
                        rows_given_to_posterior_step=K[:12], accepted=want[:12])
