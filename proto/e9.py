from ref import *
import os, tempfile, traceback, time, random
from astropy.time import Time
def mkdata(n, unit=u.km/u.s, base=56000., span=300., seed=0, errscale=1.):
    r = np.random.default_rng(seed)
    t = base + np.sort(r.uniform(0, span, n))
    return tj.RVData(t=t, rv=r.normal(0,5,n)*unit, rv_err=errscale*r.uniform(0.1,0.5,n)*unit)
def mksamples(N, s=0., pt=1, no=0, seed=1, lnp=False, t_ref=None):
    r = np.random.default_rng(seed)
    smp = tj.JokerSamples(poly_trend=pt, n_offsets=no, t_ref=t_ref)
    smp['P'] = r.uniform(2, 500, N)*u.day; smp['e'] = r.uniform(0,0.9,N); smp['omega']=r.uniform(0,6.28,N)*u.rad
    smp['M0']=r.uniform(0,6.28,N)*u.rad; smp['s']=np.full(N, s)*u.km/u.s
    if lnp: smp['ln_prior'] = r.normal(size=N)
    return smp
class RecGen(np.random.Generator):
    def __init__(self, bg):
        super().__init__(bg); self.log = []
    def uniform(self, *a, **k):
        out = super().uniform(*a, **k); self.log.append(('uniform', k.get('size'))); return out
    def choice(self, *a, **k):
        out = super().choice(*a, **k); self.log.append(('choice', a, k)); return out
data = mkdata(4, errscale=60.)
prior = tj.JokerPrior.default(P_min=2*u.day, P_max=500*u.day, sigma_K0=30*u.km/u.s, sigma_v=100*u.km/u.s)
smp = mksamples(2000, lnp=True)
print("=== C14")
for inmem in [True, False]:
  for kw in [dict(n_requested_samples=50, init_batch_size=10), dict(n_requested_samples=50, init_batch_size=10, max_prior_samples=100), dict(n_requested_samples=5, growth_factor=2), dict(n_requested_samples=5000, init_batch_size=5), dict(n_requested_samples=3, growth_factor=1000)]:
    rg = RecGen(np.random.PCG64(5))
    try:
        r = tj.TheJoker(prior, rng=rg).iterative_rejection_sample(data, smp, in_memory=inmem, **kw)
        print(inmem, kw, "->", type(r).__name__, len(r), "uniform sizes", [l[1] for l in rg.log if l[0]=='uniform'])
    except Exception as ex:
        print(inmem, kw, "raised", type(ex).__name__, str(ex)[:80])
# nonfinite row
smp2 = mksamples(100, lnp=True); smp2['e'][5] = 1.0
for inmem in [True, False]:
    try:
        r = tj.TheJoker(prior, rng=np.random.default_rng(1)).iterative_rejection_sample(data, smp2, n_requested_samples=3, init_batch_size=20, in_memory=inmem)
        print("e=1 row:", inmem, type(r), r if not hasattr(r,'tbl') else len(r))
    except Exception as ex: print("e=1 row raised", inmem, type(ex).__name__, str(ex)[:80])
print("=== C17")
s = mksamples(6, pt=2, t_ref=Time(56000., format='mjd', scale='tcb')); s['K'] = [-3,2,-1,0,5,-2.]*u.km/u.s; s['v0']=np.arange(6.)*u.km/u.s; s['v1']=np.arange(6.)*1e-3*u.km/u.s/u.day
tt = Time(56000 + np.linspace(0, 50, 7), format='mjd', scale='tcb')
before = [s.get_orbit(i).radial_velocity(tt).value for i in range(6)]
om0 = s['omega'].copy()
s.wrap_K()
after = [s.get_orbit(i).radial_velocity(tt).value for i in range(6)]
print("K", s['K'], "max rv diff", np.max(np.abs(np.array(before)-np.array(after))), "omega diff", (s['omega']-om0))
print("t0", s.get_t0()[:2], s.median_period().tbl.meta, type(s[2]), s[2].tbl.meta, s[1:3].tbl.meta, s.mean().tbl.meta, s.copy().tbl.meta)
p, un = s.pack(nonlinear_only=False); print(p.shape, un); print(tj.JokerSamples.unpack(p, un, poly_trend=2, t_ref=s.t_ref).tbl[:2])
