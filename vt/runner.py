"""Common driver for all property checks.

usage:  python -m vt.runner <ID> [--tier quick|thorough] [--replay FILE] [--shards N]
exit 0: property held on everything explored (KNOWN-FINDING lines allowed)
exit 1: prints  VIOLATION property=<ID> replay=<path>
exit 2: harness error (never reported as a violation)
"""
import argparse
import collections
import contextlib
import hashlib
import importlib
import json
import math
import os
import shutil
import subprocess
import sys
import time
import traceback

VERIF = os.path.dirname(os.path.dirname(os.path.abspath(__file__)))
WORK = os.path.join(VERIF, ".work")


class Violation(Exception):
    """The property does not hold for the current case."""

    def __init__(self, msg, **details):
        super().__init__(msg)
        self.msg = msg
        self.details = details


class HarnessError(Exception):
    pass


def jsonable(x, depth=0):
    import numpy as np

    if isinstance(x, dict):
        return {str(k): jsonable(v, depth + 1) for k, v in x.items()}
    if isinstance(x, (list, tuple)):
        return [jsonable(v, depth + 1) for v in x]
    if isinstance(x, np.ndarray):
        return jsonable(x.tolist(), depth + 1)
    if isinstance(x, (np.integer,)):
        return int(x)
    if isinstance(x, (np.floating,)):
        x = float(x)
    if isinstance(x, float):
        if math.isnan(x):
            return "NaN"
        if math.isinf(x):
            return "Infinity" if x > 0 else "-Infinity"
        return x
    if isinstance(x, (np.bool_,)):
        return bool(x)
    if isinstance(x, (str, int, bool)) or x is None:
        return x
    if isinstance(x, bytes):
        return x.hex()
    return repr(x)


def unjson_floats(x):
    """Inverse of the float encoding used by jsonable (NaN/Infinity strings)."""
    if isinstance(x, dict):
        return {k: unjson_floats(v) for k, v in x.items()}
    if isinstance(x, list):
        return [unjson_floats(v) for v in x]
    if x == "NaN":
        return float("nan")
    if x == "Infinity":
        return float("inf")
    if x == "-Infinity":
        return float("-inf")
    return x


def brief(x, maxlen=10):
    """Shorten long lists so that evidence samples stay readable."""
    if isinstance(x, dict):
        return {k: brief(v, maxlen) for k, v in x.items()}
    if isinstance(x, list):
        if len(x) > maxlen:
            return [brief(v, maxlen) for v in x[:maxlen]] + ["... (%d more)" % (len(x) - maxlen)]
        return [brief(v, maxlen) for v in x]
    return x


def fingerprint(case):
    return hashlib.sha1(json.dumps(jsonable(case), sort_keys=True).encode()).hexdigest()[:20]


def derive_seed(*parts):
    return int(hashlib.sha256(":".join(str(p) for p in parts).encode()).hexdigest()[:12], 16)


class Ctx:
    def __init__(self, prop, tier, seed, shard=0, nshards=1, replay=None, budget_s=None):
        self.prop = prop
        self.tier = tier
        self.seed = seed
        self.shard = shard
        self.nshards = nshards
        self.replay = replay  # (search_name, case) or None
        self.t0 = time.time()
        self.budget_s = budget_s
        self.evaluations = 0
        self.skipped_budget = 0
        self.nontrivial = set()
        self.classes = collections.Counter()
        self.samples = []
        self.samples_per_search = collections.Counter()
        self.kf_hits = collections.Counter()
        self.kf_first = {}
        self.stats = {}
        self.violations = []  # list of dicts {search, case, msg, details, replay}
        self.current = None
        self.current_search = None
        self.first_violation_in_search = None
        self.assumptions = []
        self.rule = ""
        self.level = "exploration"
        self.exhaustive = None
        self.extra = {}
        self.workdir = os.path.join(WORK, "%s-%s-%d-%d" % (prop, tier, os.getpid(), shard))
        os.makedirs(self.workdir, exist_ok=True)
        self.searches_run = []

    # ------------------------------------------------------------------ helpers for bodies
    @property
    def quick(self):
        return self.tier == "quick"

    def pick(self, quick, thorough):
        return quick if self.tier == "quick" else thorough

    def expired(self):
        return self.budget_s is not None and (time.time() - self.t0) > self.budget_s

    def note_case(self, case, nontrivial, classes=()):
        """Record one evaluated case (call once per case, after it ran)."""
        self.evaluations += 1
        for c in classes:
            self.classes[c] += 1
        if nontrivial:
            self.nontrivial.add(fingerprint(case))
            if self.samples_per_search[self.current_search] < 4:
                self.samples_per_search[self.current_search] += 1
                self.samples.append({"search": self.current_search, "case": brief(jsonable(case))})

    def known(self, finding_id, case=None):
        self.kf_hits[finding_id] += 1
        if finding_id not in self.kf_first:
            self.kf_first[finding_id] = {"search": self.current_search,
                                         "case": jsonable(case if case is not None else self.current)}

    def stat_max(self, key, value):
        if value is None:
            return
        try:
            value = float(value)
        except Exception:
            return
        if math.isnan(value):
            return
        if key not in self.stats or value > self.stats[key]:
            self.stats[key] = value

    @contextlib.contextmanager
    def sut(self, what="call"):
        """Code under test must not raise here: convert its exceptions into violations."""
        try:
            yield
        except (Violation, HarnessError, KeyboardInterrupt):
            raise
        except Exception as e:
            tb = traceback.format_exc(limit=-6)
            raise Violation("%s raised %s: %s" % (what, type(e).__name__, str(e)[:300]), traceback=tb)

    # ------------------------------------------------------------------ drivers
    def _begin(self, name, case):
        self.current = case
        self.current_search = name

    def _record_violation(self, name, case, v):
        os.makedirs(os.path.join(VERIF, "replay", self.prop), exist_ok=True)
        payload = {"property": self.prop, "search": name, "case": jsonable(case), "message": v.msg,
                   "details": jsonable(v.details), "seed": self.seed, "tier": self.tier}
        fp = fingerprint({"s": name, "c": case})
        path = os.path.join(VERIF, "replay", self.prop, fp + ".json")
        with open(path, "w") as f:
            json.dump(payload, f, indent=1, sort_keys=True)
        rec = {"search": name, "message": v.msg, "replay": path}
        self.violations.append(rec)
        sys.stderr.write("violation in %s/%s: %s\n" % (self.prop, name, v.msg))
        for k, val in v.details.items():
            sys.stderr.write("   %s = %s\n" % (k, str(val)[:1500]))
        return rec

    def _share(self, n):
        return max(1, int(math.ceil(n / float(self.nshards))))

    def search(self, name, strategy, body, quick, thorough, shrink=True, corpus=True):
        """Hypothesis-driven search: body(case) raises Violation when the property fails."""
        import hypothesis
        from hypothesis import HealthCheck, Phase, given, settings

        self.searches_run.append(name)
        if self.replay is not None:
            if self.replay[0] == name:
                self._run_one(name, self.replay[1], body)
            return
        if corpus:
            self.run_corpus(name, body)
        if self.violations:
            return
        n = self._share(self.pick(quick, thorough))
        phases = [Phase.generate, Phase.target] + ([Phase.shrink] if shrink else [])
        st = settings(max_examples=n, database=None, deadline=None, derandomize=False,
                      report_multiple_bugs=False, suppress_health_check=list(HealthCheck),
                      phases=phases, print_blob=False, verbosity=hypothesis.Verbosity.quiet)
        first = {}

        @hypothesis.seed(derive_seed(self.seed, self.prop, name, self.shard))
        @st
        @given(strategy)
        def test(case):
            if self.expired() and not first:
                # budget used up: remaining cases are skipped (never while a failure is being shrunk/replayed)
                self.skipped_budget += 1
                return
            self._begin(name, case)
            try:
                body(case)
            except Violation as v:
                if not first:
                    first["case"], first["v"] = case, v
                raise
            except (HarnessError, KeyboardInterrupt, hypothesis.errors.HypothesisException):
                raise
            except Exception as e:
                # the oracle code itself tripped over what the code under test returned (malformed shape, type,
                # state ...).  On every tree the checks were developed against this never happens; when it does, the
                # most likely cause is a changed behaviour of the code under test, so it is reported with the case.
                v = Violation("the check could not interpret the behaviour of the code under test: %s: %s"
                              % (type(e).__name__, str(e)[:300]), traceback=traceback.format_exc(limit=-8))
                if not first:
                    first["case"], first["v"] = case, v
                raise v from e

        try:
            test()
        except Violation as v:
            self._record_violation(name, self.current, v)
        except hypothesis.errors.FlakyFailure as e:
            if first:
                first["v"].details["flaky"] = "the failure did not reproduce on re-execution: %s" % (str(e)[:200],)
                self._record_violation(name, first["case"], first["v"])
            else:
                raise HarnessError("flaky without violation in %s: %r" % (name, e))
        except BaseException as e:
            if first and not isinstance(e, (KeyboardInterrupt, HarnessError)):
                self._record_violation(name, first["case"], first["v"])
            else:
                raise

    def _run_one(self, name, case, body):
        self._begin(name, case)
        try:
            body(case)
        except Violation as v:
            self._record_violation(name, case, v)
        except (HarnessError, KeyboardInterrupt):
            raise
        except Exception as e:
            self._record_violation(name, case, Violation(
                "the check could not interpret the behaviour of the code under test: %s: %s" % (type(e).__name__, str(e)[:300]),
                traceback=traceback.format_exc(limit=-8)))

    def run_corpus(self, name, body):
        d = os.path.join(VERIF, "corpus", self.prop)
        if not os.path.isdir(d):
            return
        for fn in sorted(os.listdir(d)):
            if not fn.endswith(".json"):
                continue
            with open(os.path.join(d, fn)) as f:
                payload = json.load(f)
            if payload.get("search") != name:
                continue
            self.classes["corpus:" + name] += 1
            self._run_one(name, unjson_floats(payload["case"]), body)
            if self.violations:
                return

    def enumerate(self, name, cases, body, every=1):
        """Plain enumeration (exhaustive spaces).  `cases` is an iterable of JSON-able cases."""
        self.searches_run.append(name)
        if self.replay is not None:
            if self.replay[0] == name:
                self._run_one(name, self.replay[1], body)
            return
        for i, case in enumerate(cases):
            if i % self.nshards != self.shard:
                continue
            self._begin(name, case)
            try:
                body(case)
            except Violation as v:
                self._record_violation(name, case, v)
                return
            except (HarnessError, KeyboardInterrupt):
                raise
            except Exception as e:
                self._record_violation(name, case, Violation(
                    "the check could not interpret the behaviour of the code under test: %s: %s" % (type(e).__name__, str(e)[:300]),
                    traceback=traceback.format_exc(limit=-8)))
                return

    def machine(self, name, factory, quick, thorough, steps_quick, steps_thorough, shrink=True):
        """Rule-based state machine.  `factory()` returns a RuleBasedStateMachine subclass whose
        instances keep a JSON-able `log` of executed steps and offer classmethod replay(log)."""
        import hypothesis
        from hypothesis import HealthCheck, Phase, settings
        from hypothesis.stateful import run_state_machine_as_test

        self.searches_run.append(name)
        cls = factory()
        if self.replay is not None:
            if self.replay[0] == name:
                self._begin(name, self.replay[1])
                try:
                    cls.replay_log(self.replay[1])
                except Violation as v:
                    self._record_violation(name, self.replay[1], v)
            return
        d = os.path.join(VERIF, "corpus", self.prop)
        if os.path.isdir(d):
            for fn in sorted(os.listdir(d)):
                if fn.endswith(".json"):
                    payload = json.load(open(os.path.join(d, fn)))
                    if payload.get("search") == name:
                        self.classes["corpus:" + name] += 1
                        self._begin(name, payload["case"])
                        try:
                            cls.replay_log(unjson_floats(payload["case"]))
                        except Violation as v:
                            self._record_violation(name, payload["case"], v)
                            return
        n = self._share(self.pick(quick, thorough))
        phases = [Phase.generate, Phase.target] + ([Phase.shrink] if shrink else [])
        st = settings(max_examples=n, stateful_step_count=self.pick(steps_quick, steps_thorough),
                      database=None, deadline=None, derandomize=False, report_multiple_bugs=False,
                      suppress_health_check=list(HealthCheck), phases=phases, print_blob=False,
                      verbosity=hypothesis.Verbosity.quiet)
        cls._ctx_name = name
        holder = {}
        cls._holder = holder
        seeded = hypothesis.seed(derive_seed(self.seed, self.prop, name, self.shard))(cls)
        self.current_search = name
        try:
            run_state_machine_as_test(seeded, settings=st)
        except Violation as v:
            self._record_violation(name, holder.get("last_log", []), v)
        except hypothesis.errors.FlakyFailure as e:
            if "first" in holder:
                self._record_violation(name, holder["first"][0], holder["first"][1])
            else:
                raise HarnessError("flaky without violation in %s: %r" % (name, e))
        except BaseException as e:
            if "first" in holder and not isinstance(e, (KeyboardInterrupt, HarnessError)):
                self._record_violation(name, holder["first"][0], holder["first"][1])
            else:
                raise

    # ------------------------------------------------------------------ results
    def partial(self):
        return {
            "evaluations": self.evaluations, "skipped_budget": self.skipped_budget,
            "nontrivial": sorted(self.nontrivial), "classes": dict(self.classes),
            "samples": self.samples, "kf_hits": dict(self.kf_hits), "kf_first": self.kf_first,
            "stats": self.stats, "violations": self.violations, "assumptions": self.assumptions,
            "rule": self.rule, "level": self.level, "exhaustive": self.exhaustive, "extra": self.extra,
            "searches": self.searches_run,
        }

    def cleanup(self):
        shutil.rmtree(self.workdir, ignore_errors=True)


def merge(parts):
    out = {"evaluations": 0, "skipped_budget": 0, "nontrivial": set(), "classes": collections.Counter(),
           "samples": [], "kf_hits": collections.Counter(), "kf_first": {}, "stats": {}, "violations": [],
           "assumptions": [], "rule": "", "level": "exploration", "exhaustive": None, "extra": {}, "searches": []}
    for p in parts:
        out["evaluations"] += p["evaluations"]
        out["skipped_budget"] += p["skipped_budget"]
        out["nontrivial"].update(p["nontrivial"])
        out["classes"].update(p["classes"])
        out["samples"] += p["samples"]
        out["kf_hits"].update(p["kf_hits"])
        for k, v in p["kf_first"].items():
            out["kf_first"].setdefault(k, v)
        for k, v in p["stats"].items():
            if k not in out["stats"] or v > out["stats"][k]:
                out["stats"][k] = v
        out["violations"] += p["violations"]
        for a in p["assumptions"]:
            if a not in out["assumptions"]:
                out["assumptions"].append(a)
        out["rule"] = p["rule"] or out["rule"]
        out["level"] = p["level"]
        if p["exhaustive"] is not None:
            out["exhaustive"] = p["exhaustive"] if out["exhaustive"] is None else (out["exhaustive"] and p["exhaustive"])
        for k, v in p["extra"].items():
            if isinstance(v, (int, float)) and not isinstance(v, bool) and k in out["extra"]:
                out["extra"][k] += v
            else:
                out["extra"].setdefault(k, v)
        for s in p["searches"]:
            if s not in out["searches"]:
                out["searches"].append(s)
    return out


def load_findings():
    path = os.path.join(VERIF, "known_findings.json")
    if not os.path.exists(path):
        return []
    with open(path) as f:
        return json.load(f)["findings"]


def finish(prop, tier, seed, res, wall, extra_assumptions):
    """Write evidence, print KNOWN-FINDING / VIOLATION lines, return exit code."""
    findings = load_findings()
    open_ids = {f["id"]: f for f in findings if f.get("status") == "open" and prop in f.get("properties", [])}
    code = 0
    lines = []
    unlisted = []
    for fid, n in sorted(res["kf_hits"].items()):
        if fid in open_ids:
            lines.append("KNOWN-FINDING: property=%s %s [%s; matched by %d generated cases this run]"
                         % (prop, open_ids[fid]["what_fails"], fid, n))
        else:
            unlisted.append(fid)
    viol = list(res["violations"])
    for fid in unlisted:
        # a recognised misbehaviour that known_findings.json does not list as open: report it
        first = res["kf_first"][fid]
        os.makedirs(os.path.join(VERIF, "replay", prop), exist_ok=True)
        path = os.path.join(VERIF, "replay", prop, "finding-%s-%s.json" % (fid, fingerprint(first)))
        with open(path, "w") as f:
            json.dump({"property": prop, "search": first["search"], "case": first["case"],
                       "message": "misbehaviour %s observed but not listed as an open known finding" % fid}, f, indent=1)
        viol.append({"search": first["search"], "message": "unlisted finding " + fid, "replay": path})
    ev = {
        "property_id": prop, "tier": tier, "seed": int(seed), "level": res["level"],
        "coverage": {
            "evaluations": int(res["evaluations"]),
            "distinct_nontrivial": len(res["nontrivial"]),
            "rule": res["rule"],
            "samples": res["samples"][:12],
            "case_classes": dict(sorted(res["classes"].items())),
            "known_finding_hits": dict(res["kf_hits"]),
            "stats": res["stats"],
            "searches": res["searches"],
            "cases_skipped_time_budget": int(res["skipped_budget"]),
        },
        "assumptions": extra_assumptions + res["assumptions"],
        "wall_s": round(wall, 2),
        "violations": len(viol),
    }
    if res["exhaustive"] is not None:
        ev["coverage"]["exhaustive"] = bool(res["exhaustive"])
    ev["coverage"].update(res["extra"])
    evdir = os.environ.get("VERIF_EVIDENCE_DIR") or os.path.join(VERIF, "evidence")  # (mutation runs write elsewhere)
    os.makedirs(evdir, exist_ok=True)
    with open(os.path.join(evdir, prop + ".json"), "w") as f:
        json.dump(jsonable(ev), f, indent=1, sort_keys=True)
    for ln in lines:
        print(ln)
    for v in viol:
        print("VIOLATION property=%s replay=%s" % (prop, v["replay"]))
        code = 1
    print("%s %s seed=%s: %d evaluations, %d distinct non-trivial, %d violations, %.1fs"
          % (prop, tier, seed, res["evaluations"], len(res["nontrivial"]), len(viol), wall))
    sys.stdout.flush()
    return code


def run_shard(prop, tier, seed, shard, nshards, replay, budget):
    from vt import build

    build.ensure_ext()
    mod = importlib.import_module("vt.checks." + prop.lower())
    import warnings

    warnings.filterwarnings("ignore")
    try:
        import thejoker.logging as _tl

        _tl.logger.setLevel("ERROR")
    except Exception:
        pass
    ctx = Ctx(prop, tier, seed, shard, nshards, replay, budget)
    ctx.rule = getattr(mod, "RULE", "")
    ctx.level = getattr(mod, "LEVEL", "exploration")
    ctx.assumptions = list(getattr(mod, "ASSUMPTIONS", []))
    old_tmp = os.environ.get("TMPDIR")
    try:
        mod.run(ctx)
    finally:
        ctx.cleanup()
        if old_tmp is not None:
            os.environ["TMPDIR"] = old_tmp
    return ctx.partial()


def main(argv=None):
    ap = argparse.ArgumentParser()
    ap.add_argument("prop")
    ap.add_argument("--tier", default=os.environ.get("VERIF_TIER", "quick"), choices=["quick", "thorough"])
    ap.add_argument("--replay")
    ap.add_argument("--shards", type=int, default=None)
    ap.add_argument("--shard", type=int, default=None)
    ap.add_argument("--partial-out")
    ap.add_argument("--budget", type=float, default=None, help="seconds of generated search per shard")
    a = ap.parse_args(argv)
    prop = a.prop.upper()
    seed = int(os.environ.get("VERIF_SEED", "1") or "1")
    t0 = time.time()
    os.makedirs(WORK, exist_ok=True)
    try:
        from vt import build

        build.ensure_ext()
        mod = importlib.import_module("vt.checks." + prop.lower())
        budget = a.budget
        if budget is None:
            budget = getattr(mod, "BUDGET", {}).get(a.tier)

        if a.shard is not None:  # child of a sharded run
            part = run_shard(prop, a.tier, seed, a.shard, a.shards, None, budget)
            with open(a.partial_out, "w") as f:
                json.dump(jsonable(part), f)
            return 0

        if a.replay:
            with open(a.replay) as f:
                payload = json.load(f)
            part = run_shard(prop, a.tier, seed, 0, 1, (payload["search"], unjson_floats(payload["case"])), None)
            for v in part["violations"]:
                print("VIOLATION property=%s replay=%s" % (prop, a.replay))
                return 1
            for fid in part["kf_hits"]:
                print("KNOWN-FINDING: property=%s replayed case reproduces finding %s" % (prop, fid))
            print("replay of %s: property holds" % a.replay)
            return 0

        nshards = a.shards
        if nshards is None:
            nshards = getattr(mod, "SHARDS", {}).get(a.tier, 1)
        if nshards <= 1:
            parts = [run_shard(prop, a.tier, seed, 0, 1, None, budget)]
        else:
            procs = []
            outs = []
            for k in range(nshards):
                out = os.path.join(WORK, "part-%s-%d-%d.json" % (prop, os.getpid(), k))
                outs.append(out)
                cmd = [sys.executable, "-m", "vt.cli", prop, "--tier", a.tier, "--shard", str(k),
                       "--shards", str(nshards), "--partial-out", out]
                if budget is not None:
                    cmd += ["--budget", str(budget)]
                procs.append(subprocess.Popen(cmd, cwd=VERIF))
            rcs = [p.wait() for p in procs]
            parts = []
            for rc, out in zip(rcs, outs):
                if rc != 0 or not os.path.exists(out):
                    raise HarnessError("shard failed with exit code %s" % rc)
                with open(out) as f:
                    parts.append(json.load(f))
                os.unlink(out)
        res = merge(parts)
        extra = build.assumptions()
        try:  # what the check trusts is written once, in the manifest (level_note)
            with open(os.path.join(VERIF, "MANIFEST.json")) as f:
                for c in json.load(f)["checks"]:
                    if c["property_id"] == prop:
                        extra.append(c["level_note"])
        except Exception:
            pass
        return finish(prop, a.tier, seed, res, time.time() - t0, extra)
    except HarnessError as e:
        sys.stderr.write("HARNESS ERROR: %s\n" % e)
        return 2
    except SystemExit:
        raise
    except BaseException:
        sys.stderr.write("HARNESS ERROR:\n" + traceback.format_exc())
        return 2


if __name__ == "__main__":
    sys.exit(main())
