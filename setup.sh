#!/bin/sh
# setup_cmd: offline.  Make hypothesis importable in /venv (it normally already is) and
# pre-build the compiled kernel from the working tree.
HERE="$(cd "$(dirname "$0")" && pwd)"
cd "$HERE" || exit 1
PY="${VERIF_PYTHON:-/venv/bin/python}"
if ! "$PY" -c "import hypothesis" 2>/dev/null; then
  "$PY" -m pip install --no-index --find-links /opt/veriftools/wheels hypothesis || exit 1
fi
mkdir -p .work .build evidence replay
PYTHONPATH="$HERE" "$PY" -W ignore -c "import vt.build as b; print(b.ensure_ext())" || exit 1
echo setup ok
