# recon: C15 RVData, C16 batch_tasks, C19 diagnostics
import warnings; warnings.filterwarnings("ignore")
import numpy as np, astropy.units as u, itertools
from astropy.time import Time
import thejoker as tj
from thejoker.utils import batch_tasks
print("=== C16 exhaustive small")
bad = 0; n=0
for n_tasks in range(1, 60):
    for n_batches in range(1, 70):
        for start in (0, 1, 7, 1103):
            for use_arr in (False, True):
                n+=1
                arr = np.arange(1000, 1000+start+n_tasks+5) if use_arr else None
                tasks = batch_tasks(n_tasks, n_batches, arr=arr, start_idx=start, args=('x',))
                if use_arr:
                    cat = np.concatenate([t[0] for t in tasks]); exp = arr[start:start+n_tasks]
                    ok = np.array_equal(cat, exp) and all(len(t[0])>0 for t in tasks)
                    starts = [t[1] for t in tasks]; pos = start
                    for t in tasks:
                        ok &= (t[1] == pos); pos += len(t[0])
                else:
                    pos = start; ok = True
                    for t in tasks:
                        a,b = t[0]; ok &= (a == pos and b > a and t[1]==a); pos = b
                    ok &= (pos == start+n_tasks)
                ok &= all(t[2]=='x' for t in tasks) and len(tasks) == (n_batches if n_tasks>=n_batches else 1)
                if not ok: bad+=1; print("BAD", n_tasks, n_batches, start, use_arr)
print("cases", n, "bad", bad)
print("=== C15")
rng = np.random.default_rng(0)
tarr = rng.uniform(55000, 56000, 9); tarr[3] = tarr[5]  # duplicate time
rv = np.arange(9.)*u.km/u.s; err = (0.1+np.arange(9.)/10)*u.km/u.s
rv2 = rv.copy(); rv2[2] = np.nan; err2 = err.copy(); err2[7] = np.inf
d = tj.RVData(tarr, rv2, err2)
print(len(d), "pairs ok:", all(rv[np.where(tarr==tt)[0]].value.tolist().count(r)>=1 for tt, r in zip(d._t_bmjd, d.rv.value)))
print(sorted(zip(d._t_bmjd, d.rv.value, d.rv_err.value))[:3], d.rv.unit, d.t_ref.mjd == d._t_bmjd.min())
cov = np.diag(err.value**2); cov[0,1]=cov[1,0]=0.001; cov = cov*(u.km/u.s)**2
d = tj.RVData(tarr, rv, cov)
idx = np.argsort(tarr)
print("cov permuted rows+cols:", np.allclose(d.rv_err.value, cov.value[idx][:, idx]), "ivar is inv:", np.allclose(d.ivar.value, np.linalg.inv(cov.value[idx][:,idx])), d.ivar.unit)
cov2 = cov.copy(); cov2[4,2] = np.nan
try:
    d = tj.RVData(tarr, rv, cov2); print("cov w/ nan at [4,2]: kept", len(d), "epochs; rv kept", d.rv.value)
except Exception as ex: print("exc", ex)
d = tj.RVData(tarr, rv, err, clean=False); print("clean False len", len(d))
dn = tj.RVData(tarr, rv2, err, clean=False); print("clean False NaN kept", len(dn), np.isnan(dn.rv.value).sum())
d = tj.RVData(tarr, rv, err)
print("slice", d[2:5].rv, d[2:5].t_ref.mjd, d[np.array([0,3])].rv)
d = tj.RVData(Time(tarr, format='mjd', scale='utc'), rv, err); print("utc time input: _t_bmjd - tarr", (d._t_bmjd - np.sort(tarr))[:2]*86400)
d = tj.RVData(tarr, rv.to(u.m/u.s), err); print("mixed units rv m/s err km/s:", d.rv.unit, d.rv_err.unit, d.ivar[:2])
print("=== C19")
s1 = tj.JokerSamples(); s1['P'] = [10.]*u.day
t = 56000 + np.array([2.,3.,4.,5., 12.2])
dd = tj.RVData(t=t, rv=np.ones(5)*u.km/u.s, rv_err=np.ones(5)*u.km/u.s)
print("phase", dd.phase(s1['P']), "cov", tj.phase_coverage(s1, dd), "span", tj.periods_spanned(s1, dd), "pcpp", tj.phase_coverage_per_period(s1, dd))
s3 = tj.JokerSamples(); s3['P'] = [10., 20., 30.]*u.day; s3['ln_prior'] = [0., 5., 1.]; s3['ln_likelihood'] = [3., -1., 3.]
print("MAP", tj.MAP_sample(s3, return_index=True)[1], tj.MAP_sample(s3)['P'])
