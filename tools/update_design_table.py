#!/usr/bin/env python3
"""Replace the seed table of DESIGN.md (section 10.6) by the current output of tools/seed_table.py."""
import subprocess, sys
p = "/verif/DESIGN.md"
lines = open(p).read().split("\n")
start = next(i for i, l in enumerate(lines) if l.startswith("| seed | change | needs to manifest"))
end = start
while end < len(lines) and lines[end].startswith("|"):
    end += 1
table = subprocess.run([sys.executable, "/verif/tools/seed_table.py"], capture_output=True, text=True, check=True).stdout.rstrip("\n").split("\n")
open(p, "w").write("\n".join(lines[:start] + table + lines[end:]))
print("replaced %d lines by %d" % (end - start, len(table)))
