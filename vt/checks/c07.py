"""C07 - physical results are invariant under the choice of units."""
import copy
import math
import os

import numpy as np
from hypothesis import strategies as st

from vt import gens
from vt import oracle_gauss as og
from vt.checks import c01, c03
from vt.recgen import RecordingGenerator
from vt.runner import Violation

RULE = ("One physical problem is drawn in canonical units (km/s, day, rad) together with a twin in which the unit of "
        "every slot is drawn independently from equivalent units: each survey's rv and rv_err, the period prior, "
        "sigma_K0 / P0 / max_K (or the custom K prior), every trend and offset prior, the jitter prior and each "
        "prior-sample column. Oracle (metamorphic): ll_twin - ll_base = -n ln(data-unit ratio) within the round-off "
        "model; with equal seeds the same prior samples are accepted; the (mean, cov) handed to the linear draw scale "
        "with the ratio and its square; returned columns carry the twin's data unit and are physically equal. "
        "Prior samples drawn from base and twin priors must lie in (and be log-uniform over) the same physical period range "
        "(P_min / P_max may be quoted in different units); one in five twins re-uses the base's JokerPrior object. (extreme) a "
        "40-120 epoch series is rescaled so that its best ln-likelihood sits just inside the range of exp() in km/s and outside "
        "it in m/s, cm/s or AU/yr: rejection / iterative sampling (memory, cache, file) with equal seeds must return the same "
        "prior samples in both. Non-trivial: the twin differs from the base in >=2 unit slots, at least one on the prior side."
        " Also: P_max in another unit than P_min with prior draws checked against the declared range; one twin in five re-uses the base's JokerPrior object; returned nonlinear columns physically equal; search 'extreme' (40-120 epochs rescaled so that the best ln-likelihood is inside the range of exp() in km/s and outside it in the twin unit; rejection / iterative x memory / cache / file, equal seeds -> same prior samples).")
SHARDS = {"quick": 4, "thorough": 16}
BUDGET = {"quick": 75, "thorough": 800}


def _trend_unit(draw, i):
    vel = draw(st.sampled_from(og.VEL_UNITS))
    if i == 0:
        return vel
    tim = draw(st.sampled_from(["d", "yr", "h"]))
    return "%s/%s%s" % (vel, tim, "" if i == 1 else "^%d" % i)


@st.composite
def twins(draw, thorough=False):
    base = draw(gens.problems(max_surveys=3, max_epochs=20 if thorough else 8, max_poly=3, n_rows=(4, 8), units=False))
    base["time_input"] = "float"
    twin = copy.deepcopy(base)
    slots = 0
    prior_slots = 0

    def cv(x, a, b):
        return float(og.conv(x, a, b))

    for s in twin["surveys"]:
        un = draw(st.sampled_from(og.VEL_UNITS))
        eu = draw(st.sampled_from([un, un] + og.VEL_UNITS))
        s["rv"] = [cv(x, "km/s", un) for x in s["rv"]]
        s["err"] = [cv(x, "km/s", eu) for x in s["err"]]
        s["unit"] = un
        if eu != un:
            s["err_unit"] = eu
        slots += (un != "km/s") + (eu != un)
    pr = twin["prior"]
    shared = draw(st.sampled_from([False, False, False, False, True]))
    if shared:
        # the very same JokerPrior object serves both data sets (priors carry their own units)
        twin["rows"] = [dict(r, s=cv(r["s"], "km/s", twin["surveys"][0]["unit"])) for r in base["rows"]]
        twin["row_units"] = draw(gens.row_units(True))
        return {"base": base, "twin": twin, "n_unit_slots_changed": int(slots), "prior_slots_changed": 0, "shared_prior": True,
                "path": draw(st.sampled_from(["mem", "mem", "cache", "file"])),
                "rng_seed": draw(st.integers(0, 2**32 - 1)), "n_linear": draw(st.sampled_from([1, 2, 4]))}
    pu = draw(st.sampled_from(og.TIME_UNITS))
    pr["P"]["min"], pr["P"]["max"], pr["P"]["unit"] = cv(pr["P"]["min"], "d", pu), cv(pr["P"]["max"], "d", pu), pu
    prior_slots += pu != "d"
    if draw(st.booleans()):
        pr["P"]["max_unit"] = draw(st.sampled_from(og.TIME_UNITS))    # P_min and P_max quoted in different units
        prior_slots += pr["P"]["max_unit"] != pu
    K = pr["K"]
    if K["kind"] == "fcm":
        ku = draw(st.sampled_from(og.VEL_UNITS))
        K["sigma_K0"], K["sigma_K0_unit"] = cv(K["sigma_K0"], K["sigma_K0_unit"], ku), ku
        p0u = draw(st.sampled_from(og.TIME_UNITS))
        K["P0"], K["P0_unit"] = cv(K["P0"], K["P0_unit"], p0u), p0u
        prior_slots += (ku != "km/s") + 1
        if K.get("max_K") is not None:
            mu_ = draw(st.sampled_from(og.VEL_UNITS))
            K["max_K"], K["max_K_unit"] = cv(K["max_K"], K["max_K_unit"], mu_), mu_
            prior_slots += mu_ != "km/s"
    else:
        ku = draw(st.sampled_from(og.VEL_UNITS))
        K["mu"], K["sigma"], K["unit"] = cv(K["mu"], K["unit"], ku), cv(K["sigma"], K["unit"], ku), ku
        prior_slots += ku != "km/s"
    for i, v in enumerate(pr["v"]):
        un = _trend_unit(draw, i)
        v["mu"], v["sigma"] = cv(v["mu"], v["unit"], un), cv(v["sigma"], v["unit"], un)
        prior_slots += un != v["unit"]
        v["unit"] = un
    for o in pr["offsets"]:
        un = draw(st.sampled_from(og.VEL_UNITS))
        o["mu"], o["sigma"] = cv(o["mu"], o["unit"], un), cv(o["sigma"], o["unit"], un)
        prior_slots += un != o["unit"]
        o["unit"] = un
    s = pr["s"]
    su = draw(st.sampled_from(og.VEL_UNITS))
    if s["kind"] == "const":
        s["value"] = cv(s["value"], s["unit"], su)
    elif s["kind"] == "lognormal":
        s["mu"] = s["mu"] + math.log(cv(1.0, s["unit"], su))
    s["unit"] = su
    # rows are kept in canonical numbers; row_units decides how the twin's library is expressed.
    # the twin's s column must be given in the twin's data unit when no explicit unit is chosen
    twin["row_units"] = draw(gens.row_units(True))
    du_t = twin["surveys"][0]["unit"]
    twin["rows"] = [dict(r, s=cv(r["s"], "km/s", du_t)) for r in base["rows"]]
    slots += sum(twin["row_units"][k] not in ("d", "rad", None) for k in twin["row_units"])
    pair = {"base": base, "twin": twin, "n_unit_slots_changed": int(slots + prior_slots),
            "prior_slots_changed": int(prior_slots),
            "path": draw(st.sampled_from(["mem", "mem", "cache", "file"])),
            "rng_seed": draw(st.integers(0, 2**32 - 1)), "n_linear": draw(st.sampled_from([1, 2, 4]))}
    return pair


def body_factory(ctx):
    import astropy.units as u

    import thejoker as tj

    def run_one(spec, pair, prior=None):
        prob = og.Problem(spec)
        data = gens.build_data(spec)
        if prior is None:
            prior = gens.build_prior(spec["prior"])
        smp = gens.build_samples(spec)
        rows_eff = c01.effective_rows(smp, prob.data_unit)
        joker = tj.TheJoker(prior)
        if pair["path"] == "file":
            # base and twin libraries are written under the same file name, one after the other
            fn = os.path.join(ctx.workdir, "c07lib.hdf5")
            smp.write(fn, overwrite=True)
            ll = np.asarray(joker.marginal_ln_likelihood(data, fn), dtype=float)
        else:
            ll = np.asarray(joker.marginal_ln_likelihood(data, smp, in_memory=pair["path"] == "mem"), dtype=float)
        spec2 = dict(spec, path=pair["path"], rng_seed=pair["rng_seed"], n_linear=pair["n_linear"])
        out, calls, rg, pool = c03.run_rejection(ctx, spec2, prob, data, prior, smp)
        # prior samples drawn from this prior with a fixed seed (the twin must draw the same physical periods)
        drawn = prior.sample(size=48, rng=np.random.default_rng(pair["rng_seed"] % 1000 + 5))
        return dict(prob=prob, rows=rows_eff, ll=ll, out=out, calls=calls, rg=rg, prior=prior, drawn=drawn)

    def body(pair):
        with ctx.sut("evaluating base problem"):
            B = run_one(pair["base"], pair)
        with ctx.sut("evaluating unit-transformed twin"):
            T = run_one(pair["twin"], pair, prior=B["prior"] if pair.get("shared_prior") else None)
        pb, pt = B["prob"], T["prob"]
        # ---- the priors themselves describe the same physical period range
        prb, prt = pair["base"]["prior"]["P"], pair["twin"]["prior"]["P"]
        lo_d, hi_d = float(og.conv(prb["min"], prb["unit"], "d")), float(og.conv(prb["max"], prb["unit"], "d"))
        for what, X in (("base", B), ("twin", T)):
            Pd_ = X["drawn"]["P"].to_value(u.day)
            if Pd_.min() < lo_d * (1 - 1e-9) or Pd_.max() > hi_d * (1 + 1e-9):
                raise Violation("prior samples of the %s prior fall outside the declared period range" % what,
                                range_days=(lo_d, hi_d), drawn_min=float(Pd_.min()), drawn_max=float(Pd_.max()),
                                P_spec=prt if what == "twin" else prb)
        if prb["kind"] == "uniformlog":
            import scipy.stats as ss_
            for what, X in (("base", B), ("twin", T)):
                z = np.log(X["drawn"]["P"].to_value(u.day) / lo_d) / math.log(hi_d / lo_d)
                pv = ss_.kstest(z, ss_.uniform.cdf).pvalue
                if pv < 1e-9:
                    raise Violation("prior samples of the %s prior are not log-uniform over the declared period range "
                                    "(KS p=%.2g)" % (what, pv), range_days=(lo_d, hi_d), P_spec=prt if what == "twin" else prb)
        if pair["path"] == "file":
            # a file holding the base library, extended by the same rows expressed in the twin's units: either the
            # append is refused, or the file must then hold the same physical samples twice
            import thejoker as tj_
            fn = os.path.join(ctx.workdir, "c07append.hdf5")
            lb = gens.build_samples(pair["base"])
            lt = gens.build_samples(dict(pair["twin"], rows=pair["twin"]["rows"]))
            lb.write(fn, overwrite=True)
            try:
                lt.write(fn, append=True)
                appended = True
            except Exception:
                appended = False
            if appended:
                db = gens.build_data(pair["base"])
                pr_b = gens.build_prior(pair["base"]["prior"])
                with ctx.sut("marginal_ln_likelihood on an appended file"):
                    ll_file = np.asarray(tj_.TheJoker(pr_b).marginal_ln_likelihood(db, fn), dtype=float)
                nb_ = len(B["ll"])
                for half in (ll_file[:nb_], ll_file[nb_:]):
                    if half.shape != B["ll"].shape or not np.all(np.abs(half - B["ll"]) <= 1e-6 * (1 + np.abs(B["ll"]))):
                        raise Violation("a library appended in other (equivalent) units does not hold the same physical "
                                        "samples", base=B["ll"][:5], from_file=half[:5])
                ctx.classes["append in other units accepted and consistent"] += 1
            else:
                ctx.classes["append in other units refused"] += 1
        n = pb.n
        f = float(og.conv(1.0, pb.data_unit, pt.data_unit))  # twin data units per base data unit
        f4 = pair["twin"]["prior"]["K"]["kind"] == "fcm" and pair["twin"]["prior"]["P"]["unit"] != "d"
        used_f4 = False
        max_dev = [0.0]
        unstable = [False]
        # ---- likelihood: constant Jacobian
        for i, (rb, rt) in enumerate(zip(B["rows"], T["rows"])):
            if rb["e"] > 0.99:
                continue
            evb = og.evaluate(pb, rb)
            evt = og.evaluate(pt, rt)
            # the code's actual values may follow a recorded defect (e.g. F1: jitter ignored, so chi^2 is far larger
            # than the true closed form's): take the round-off scale from both readings and from the values themselves
            evb2 = og.evaluate(pb, rb, tuple(pb.applicable_flags(rb)))
            evt2 = og.evaluate(pt, rt, tuple(pt.applicable_flags(rt)))
            tol = (max(og.tol_of(evb), og.tol_of(evb2)) + max(og.tol_of(evt), og.tol_of(evt2)) + 1e-9
                   + 1e-11 * (abs(B["ll"][i]) + abs(T["ll"][i])))
            if max(og.tol_of(evb), og.tol_of(evb2), og.tol_of(evt), og.tol_of(evt2)) > 1e-2:
                # the float64 emulation of the kernel's own route is off by an amount visible at this scale (huge prior means /
                # widths: cancellation inside the kernel): its values are dominated by round-off and two evaluations of
                # equivalent inputs cannot be expected to agree - counted, not judged (as for the linear draws below)
                ctx.classes["numerically unstable configuration: likelihood invariance not judged"] += 1
                unstable[0] = True
                continue
            d = abs(T["ll"][i] + n * math.log(f) - B["ll"][i])
            max_dev[0] = max(max_dev[0], d)
            if f4:
                # recorded defect F4 breaks the invariance for this twin: its value must then be exactly the closed
                # form with F4's signature (best explanation among the applicable defect signatures)
                best = (None, float("inf"))
                for flags in og.subsets(pt.applicable_flags(rt)):
                    r2 = og.ratio_of(og.evaluate(pt, rt, flags), T["ll"][i])
                    if r2 < best[1]:
                        best = (flags, r2)
                if best[1] <= 1.0 and "F4" in best[0]:
                    used_f4 = True
                    continue
            else:
                ctx.stat_max("max |ll_twin + n ln f - ll_base| / tol", d / tol)
            if d <= tol:
                continue
            raise Violation("marginal ln-likelihood is not invariant (up to the Jacobian) under a change of units",
                            row=rb, ll_base=float(B["ll"][i]), ll_twin=float(T["ll"][i]), n=n, unit_ratio=f,
                            expected_difference=-n * math.log(f), diff=d, tol=tol,
                            base_units=pb.data_unit, twin_units=pt.data_unit)
        if used_f4:
            ctx.known("F4")
        if unstable[0]:
            # acceptance ratios and linear draws of such a configuration are round-off dominated as well: nothing further is judged
            ctx.note_case(pair, False, ["numerically unstable pair (not judged beyond the stable rows)"])
            return
        # ---- accepted set with equal seeds
        nlin = pair["n_linear"]
        Pb = B["out"]["P"].to_value(u.day)[::nlin]
        Pt = T["out"]["P"].to_value(u.day)[::nlin]
        same = len(Pb) == len(Pt) and np.allclose(Pb, Pt, rtol=1e-12, atol=0)
        if same:
            # (library rows may share a period: the accepted *rows* are the same only if the other parameters agree too)
            for nm_, un_ in (("e", u.one), ("omega", u.rad), ("M0", u.rad)):
                same = same and np.allclose(B["out"][nm_].to_value(un_)[::nlin], T["out"][nm_].to_value(un_)[::nlin], rtol=1e-9, atol=1e-12)
        if not same and not used_f4:
            # can round-off explain it? a uniform draw within the round-off of the acceptance ratio
            uu = B["rg"].calls("uniform")[0]["out"]
            r = np.exp(B["ll"] - B["ll"].max())
            if np.min(np.abs(r - uu) - 4 * max_dev[0] * r) > 1e-12:
                raise Violation("different prior samples accepted for the same problem in other units (equal seeds)",
                                accepted_base=Pb, accepted_twin=Pt, max_ll_deviation=max_dev[0])
            ctx.classes["knife-edge acceptance (skipped)"] += 1
        if same:
            # ---- the nonlinear parameters of the returned rows are the same physical values (the jitter comes back in the
            # data unit of each run)
            for nm, un_ in (("P", u.day), ("e", u.one), ("omega", u.rad), ("M0", u.rad), ("s", u.km / u.s)):
                vb = np.asarray(B["out"][nm].to_value(un_), dtype=float)
                vt = np.asarray(T["out"][nm].to_value(un_), dtype=float)
                if vb.shape != vt.shape or not np.allclose(vb, vt, rtol=1e-9, atol=1e-12):
                    raise Violation("returned %s differs physically between the base run and its unit twin" % nm,
                                    base=vb[:8], twin=vt[:8], twin_unit=str(T["out"][nm].unit), path=pair["path"],
                                    twin_library_unit=pair["twin"]["row_units"].get(nm if nm != "e" else "P"))
            # ---- linear draw: (mean, cov) scale with f, f^2 ; returned columns physically equal
            names = c03.linear_names(pb)
            ub = c03.linear_units(pb)
            ut = c03.linear_units(pt)
            for k, (cb, ct) in enumerate(zip(B["calls"], T["calls"])):
                i = c03.match_row(B["rows"], {nm: float(B["out"][nm][k * nlin].to_value(un)) for nm, un in
                                              (("P", u.day), ("e", u.one), ("omega", u.rad), ("M0", u.rad),
                                               ("s", og.unit(pb.data_unit)))})
                if i is None or B["rows"][i]["e"] > 0.99:
                    continue
                if not (np.all(np.isfinite(cb["mean"])) and np.all(np.isfinite(cb["cov"]))):
                    continue  # defect F2 (non-finite covariance), reported by C03
                ev = og.evaluate(pb, B["rows"][i], want_posterior=True)
                if og.tol_of(ev) > 1e-4:
                    # the float64 emulation of the kernel's own route already deviates visibly from the exact value for
                    # this configuration (cancellation in the kernel): its output is dominated by round-off, so two
                    # evaluations of equivalent inputs cannot be expected to agree to the posterior tolerance
                    ctx.classes["numerically unstable configuration: linear-draw scaling not judged"] += 1
                    continue
                # use the code's own base values as reference, scaled
                ref = dict(ev)
                ref["a"] = np.asarray(cb["mean"]) * f
                ref["A"] = np.asarray(cb["cov"]) * f * f
                # both sides are computed covariances: their own conditioning (the kernel's matrix can be much closer to
                # singular than the closed form's, e.g. when it leaves the jitter out) sets the round-off scale
                ratio = og.posterior_ratio(ref, ct["mean"], ct["cov"], cond_floor=max(og.corr_cond(cb["cov"]), og.corr_cond(ct["cov"])))
                if ratio > 8.0 and not f4:
                    raise Violation("mean/covariance of the linear draw do not scale with the data-unit ratio",
                                    mean_base=cb["mean"], mean_twin=ct["mean"], ratio_f=f, cov_base=cb["cov"],
                                    cov_twin=ct["cov"], excess=ratio)
                if ratio > 8.0:
                    ctx.known("F4")
                    continue
                if not f4:
                    ctx.stat_max("max posterior scaling error / tol", ratio)
            for nm, un_t in zip(names, ut):
                col = T["out"][nm]
                if not col.unit.is_equivalent(un_t):
                    raise Violation("twin column %s has unit %s" % (nm, col.unit))
            for nm in ("K", "v0"):
                if T["out"][nm].unit != og.unit(pt.data_unit):
                    raise Violation("returned %s is not in the twin's data unit" % nm, unit=str(T["out"][nm].unit),
                                    data_unit=pt.data_unit)
        nt = pair["n_unit_slots_changed"] >= 2 and pair["prior_slots_changed"] >= 1
        ctx.note_case(pair, nt, ["slots=%d" % min(pair["n_unit_slots_changed"], 9), "path:" + pair["path"],
                                 "twinP:" + pair["twin"]["prior"]["P"]["unit"], "K:" + pair["base"]["prior"]["K"]["kind"],
                                 "twin_data:" + pt.data_unit, "prior object shared" if pair.get("shared_prior") else "prior rebuilt",
                                 "twin P_max unit %s P_min unit" % ("!=" if pair["twin"]["prior"]["P"].get("max_unit") not in (None, pair["twin"]["prior"]["P"]["unit"]) else "=="),
                                 "accepted_same" if same else "accepted_differs(F4)"])

    return body


# ----------------------------------------------------------------------------- likelihood values near the range of exp()
def scale_spec(spec, g):
    """The same problem with every velocity-like number multiplied by g (a physical rescaling: all ln-likelihoods move by
    -n ln g, nothing else changes)."""
    sp = copy.deepcopy(spec)
    for sv in sp["surveys"]:
        sv["rv"] = [x * g for x in sv["rv"]]
        sv["err"] = [x * g for x in sv["err"]]
    pr = sp["prior"]
    K = pr["K"]
    if K["kind"] == "fcm":
        K["sigma_K0"] *= g
        K["max_K"] = (K["max_K"] if K.get("max_K") is not None else 500.0) * g
        K["max_K_unit"] = K.get("max_K_unit") or "km/s"
    else:
        K["mu"] *= g
        K["sigma"] *= g
    for x in pr["v"] + pr["offsets"]:
        x["mu"] *= g
        x["sigma"] *= g
    sj = pr["s"]
    if sj["kind"] == "const":
        sj["value"] *= g
    elif sj["kind"] == "lognormal":
        sj["mu"] += math.log(g)
    sp["rows"] = [dict(r, s=r["s"] * g) for r in sp["rows"]]
    return sp


def to_unit(spec, un):
    sp = copy.deepcopy(spec)
    for sv in sp["surveys"]:
        sv["rv"] = [float(og.conv(x, "km/s", un)) for x in sv["rv"]]
        sv["err"] = [float(og.conv(x, "km/s", un)) for x in sv["err"]]
        sv["unit"] = un
    sp["rows"] = [dict(r, s=float(og.conv(r["s"], "km/s", un))) for r in sp["rows"]]
    return sp


@st.composite
def extreme_cases(draw):
    base = draw(gens.problems(max_surveys=1, max_epochs=4, max_poly=2, n_rows=(6, 14), units=False, t_ref=False))
    base["time_input"] = "float"
    base["row_units"] = {"P": "d", "omega": "rad", "M0": "rad", "s": None}
    if base["prior"]["K"]["kind"] == "fcm":
        base["prior"]["via"] = "manual"     # the cap max_K has to be rescaled with the problem: JokerPrior.default() fixes it
    # a long time series (the ln-likelihood of n epochs scales with n): epochs, velocities and (generous) errors from a seed
    n = draw(st.integers(40, 120))
    g_ = np.random.default_rng(draw(st.integers(0, 10**6)))
    sv = base["surveys"][0]
    t0 = min(sv["t"])
    sv["t"] = [gens.rounded(float(x), 9) for x in np.sort(t0 + g_.uniform(0, 400.0, n))]
    v0_mu = float(base["prior"]["v"][0]["mu"])
    sv["rv"] = [gens.rounded(float(x), 9) for x in v0_mu + g_.normal(0.0, 1.0, n)]
    sv["err"] = [gens.rounded(float(x), 9) for x in g_.uniform(2.0, 4.0, n)]
    sv.pop("err_unit", None)
    # no extra jitter in the library rows: the kernel leaves it out of the variance (recorded defect F1), which turns
    # configurations that are well conditioned on paper into ones it cannot evaluate stably
    base["rows"] = [dict(r, s=0.0) for r in base["rows"]]
    side = draw(st.sampled_from(["underflow", "underflow", "overflow"]))
    return {"base": base, "side": side,
            "margin": gens.rounded(draw(gens.fl(0.5, 30.0)), 3),
            "unit": draw(st.sampled_from(["m/s", "cm/s"])) if side == "underflow" else "AU/yr",
            "entry": draw(st.sampled_from(["rejection", "iterative", "iterative"])), "path": draw(st.sampled_from(["mem", "cache", "file"])),
            "rng_seed": draw(st.integers(0, 2**32 - 1)), "n_batches": draw(st.sampled_from([None, 1, 3]))}


def extreme_body_factory(ctx):
    import astropy.units as u

    import thejoker as tj

    def sample(spec, case):
        data = gens.build_data(spec)
        prior = gens.build_prior(spec["prior"])
        smp = gens.build_samples(spec)
        joker = tj.TheJoker(prior, rng=np.random.default_rng(case["rng_seed"]))
        ll = np.asarray(joker.marginal_ln_likelihood(data, smp, in_memory=True), dtype=float)
        src, mem = smp, case["path"] == "mem"
        if case["path"] == "file":
            src = os.path.join(ctx.workdir, "c07x.hdf5")
            smp.write(src, overwrite=True)
        joker = tj.TheJoker(prior, rng=np.random.default_rng(case["rng_seed"]))
        kw = {} if mem else {"n_batches": case["n_batches"]}
        if case["entry"] == "rejection":
            out = joker.rejection_sample(data, src, in_memory=mem, **kw)
        else:
            out = joker.iterative_rejection_sample(data, src, n_requested_samples=len(smp), init_batch_size=max(1, len(smp) // 3),
                                                   in_memory=mem, **kw)
        return ll, out

    def body(case):
        base = case["base"]
        n = sum(len(sv["t"]) for sv in base["surveys"])
        with ctx.sut("marginal_ln_likelihood of the unscaled problem"):
            ll0 = np.asarray(tj.TheJoker(gens.build_prior(base["prior"])).marginal_ln_likelihood(
                gens.build_data(base), gens.build_samples(base), in_memory=True), dtype=float)
        if not np.all(np.isfinite(ll0)):
            ctx.classes["extreme: unscaled likelihoods not finite (skipped)"] += 1
            return
        # rescale the problem so that its best ln-likelihood sits `margin` inside the range of exp(), and express it in a
        # unit that moves it out of that range: the relative likelihoods - all the samplers need - do not change
        f = float(og.conv(1.0, "km/s", case["unit"]))
        shift_unit = -n * math.log(f)
        if case["side"] == "underflow":
            if shift_unit >= 0:
                ctx.classes["extreme: unit does not lower the likelihood (skipped)"] += 1
                return
            target = -745.0 + min(case["margin"], -shift_unit * 0.9)
        else:
            if shift_unit <= 0:
                ctx.classes["extreme: unit does not raise the likelihood (skipped)"] += 1
                return
            target = 709.0 - min(case["margin"], shift_unit * 0.9)
        lg = (float(ll0.max()) - target) / n
        if abs(lg) > 12:
            ctx.classes["extreme: would need a rescaling beyond e^12 (skipped)"] += 1
            return
        g = math.exp(lg)
        A = scale_spec(base, g)
        Bsp = to_unit(A, case["unit"])
        pb0, pbA = og.Problem(base), og.Problem(A)
        if max(max(og.tol_of(og.evaluate(pb0, r0)), og.tol_of(og.evaluate(pbA, rA))) for r0, rA in zip(base["rows"], A["rows"])) > 1e-3:
            # cancellation in the kernel's route (visible in its float64 emulation): the values are dominated by round-off
            ctx.classes["extreme: numerically unstable configuration (skipped)"] += 1
            return
        with ctx.sut("sampling the problem in km/s (best ln-likelihood %.1f)" % target):
            llA, outA = sample(A, case)
        with ctx.sut("sampling the same problem in %s (best ln-likelihood %.1f)" % (case["unit"], target + shift_unit)):
            llB, outB = sample(Bsp, case)
        if not (abs(float(llA.max()) - target) <= 1e-4 * (abs(target) + n * abs(math.log(g)) + abs(float(ll0.max())) + 1)):
            raise Violation("rescaling every velocity by g does not move the ln-likelihood by -n ln g", g=g, n=n,
                            before=float(ll0.max()), after=float(llA.max()), expected=target)
        dev = np.abs((llB - shift_unit) - llA)
        # (coarse: the round-off model of the likelihood is applied by the 'twins' search; here only gross failures count)
        if not np.all(dev <= 1e-3 * (1 + np.abs(llA))):
            raise Violation("marginal ln-likelihood is not invariant (up to the Jacobian) under a change of units", worst=float(dev.max()))
        PA, PB = outA["P"].to_value(u.day), outB["P"].to_value(u.day)
        if not (len(PA) == len(PB) and np.allclose(PA, PB, rtol=1e-12, atol=0)):
            # knife edge: a uniform draw within round-off of an acceptance ratio
            r = np.exp(llA - llA.max())
            uu = np.random.default_rng(case["rng_seed"]).uniform(size=len(r))
            if case["entry"] == "rejection" and np.min(np.abs(r - uu) - (4 * float(dev.max()) + 1e-9) * r) <= 1e-12:
                ctx.classes["extreme: knife-edge acceptance (skipped)"] += 1
            else:
                raise Violation("different prior samples returned for the same problem in other units (equal seeds), where "
                                "the ln-likelihoods of one of them lie outside the range of exp()",
                                km_s=PA[:10], other=PB[:10], unit=case["unit"], best_ll_km_s=float(llA.max()), best_ll_other=float(llB.max()))
        ctx.note_case(case, True, ["extreme:" + case["side"], "extreme:" + case["entry"], "extreme:path:" + case["path"], "extreme:unit:" + case["unit"]])

    return body


def run(ctx):
    ctx.search("extreme", extreme_cases(), extreme_body_factory(ctx), quick=80, thorough=2000)
    ctx.search("twins", twins(thorough=not ctx.quick), body_factory(ctx), quick=1200, thorough=16000)
