"""C02 - the rejection step keeps a prior sample with probability L_i / L_max, unaltered."""
import numpy as np
from hypothesis import strategies as st

from vt import gens, rej
from vt import oracle_gauss as og
from vt.recgen import RecordingGenerator
from vt.runner import Violation

RULE = ("(scripted) library size 1-60 [thorough 400], likelihood profile class {flat, single spike, ties at/below the "
        "maximum, -inf next to finite values, huge dynamic range, random} installed through a duck-typed helper, "
        "max_posterior_samples, n_prior_samples, n_linear_samples 1-3, randomize_prior_order, in-memory / cache file / "
        "file name, n_batches 1..N+3, pool size and completion order, seed; uniform draws recorded or steered (atoms at "
        "0, just below and just above each acceptance ratio). Oracle: the acceptance rule re-executed on the captured "
        "choice/uniform draws gives the expected accepted positions; returned nonlinear columns must be bit-for-bit the "
        "library rows order[positions] repeated n_linear times; exactly one uniform(size=#evaluated) call; every "
        "evaluated row's likelihood requested exactly once in evaluation order. (end-to-end) the same with the real "
        "kernel on generated data, likelihoods taken from an independent marginal_ln_likelihood call. Non-trivial: "
        "1 < accepted < evaluated, or an effective truncation, or a shuffled order, or steered draws, or a -inf / tie "
        "profile."
        " Also: an additive constant on all ln-likelihoods (0, -3000, +2500, -1e5), rows with ln_prior = -inf, return_logprobs on, library objects with a previous life, and a 'large' search (16k-131k rows in 2-3 batches).")
SHARDS = {"quick": 4, "thorough": 16}
BUDGET = {"quick": 70, "thorough": 800}


def body_factory(ctx):
    def body(case):
        with ctx.sut("rejection_sample[%s]" % case["path"]):
            R = rej.run_rejection(ctx, case)
        out, rg, helper, lib, lls = R["res"], R["rg"], R["helper"], R["lib"], R["lls"]
        order = rej.evaluation_order(case, rg)
        if not np.isfinite(lls[order]).any():
            # every evaluated likelihood is -inf: outside the property's domain (it needs one finite value)
            ctx.classes["outside domain: all evaluated likelihoods -inf"] += 1
            return
        un = rg.calls("uniform")
        if len(un) != 1:
            raise Violation("expected exactly one uniform draw on the sampler's generator, saw %d" % len(un))
        uu = np.asarray(un[0]["out"], dtype=float)
        if uu.shape != (len(order),):
            raise Violation("uniform draws: shape %s, but %d samples are evaluated" % (uu.shape, len(order)))
        if case["path"] != "mem" and not case["randomize"] and rg.calls("choice"):
            raise Violation("rng.choice used although randomize_prior_order=False")
        # every evaluated row's likelihood requested exactly once, in evaluation order (over all batches)
        asked = np.concatenate(helper.ll_calls) if helper.ll_calls else np.array([], dtype=int)
        if case.get("pool_order") is None and not np.array_equal(asked, order):
            raise Violation("likelihoods were not requested for exactly the evaluated rows in evaluation order",
                            asked=asked[:20], order=order[:20])
        if sorted(asked.tolist()) != sorted(order.tolist()):
            raise Violation("likelihoods were requested for a different multiset of rows than the evaluated ones",
                            asked=sorted(asked.tolist())[:20], order=sorted(order.tolist())[:20])
        pos_all = rej.accepted_from(lls[order], uu)
        pos = pos_all if case["max_post"] is None else pos_all[:case["max_post"]]
        rows = order[pos]
        rej.check_rows(out, lib, rows, case["n_linear"])
        # the best sample always survives (ratio 1 > u for every u in [0, 1)) unless truncated away
        best = int(np.argmax(lls[order]))
        if best not in pos_all.tolist():
            raise Violation("harness: best sample not in the expected set")  # cannot happen: r=1 > u
        P_out = set(np.rint(out["P"].value).astype(int).tolist())
        if (case["max_post"] is None or pos_all.tolist().index(best) < case["max_post"]) and (order[best] + 1) not in P_out:
            raise Violation("the best sample did not survive")
        nt = (1 < len(pos_all) < len(order)) or (len(pos) < len(pos_all)) or (case["randomize"] and case["path"] != "mem") \
            or case["steer"] == "atoms" or case["profile"] in ("ties", "neg_inf")
        ctx.note_case(case, nt, ["path:" + case["path"], "profile:" + case["profile"],
                                 "steered" if case["steer"] else "recorded",
                                 "truncated" if len(pos) < len(pos_all) else "not_truncated",
                                 "shuffled" if (case["randomize"] and case["path"] != "mem") else "in_order",
                                 "accepted:%s" % ("1" if len(pos_all) == 1 else ("all" if len(pos_all) == len(order) else "some")),
                                 "n_linear=%d" % case["n_linear"],
                                 "library in internal units" if not case.get("lib_units") else "library in other units",
                                 "n_prior<N" if (case["n_prior"] and case["n_prior"] < case["n"] and case["path"] != "mem") else "n_prior=N"])

    return body


# ----------------------------------------------------------------------------- end to end with the real kernel
@st.composite
def real_cases(draw):
    spec = draw(gens.problems(max_surveys=2, max_epochs=6, max_poly=2, n_rows=(2, 40), units=draw(st.booleans())))
    spec["path"] = draw(st.sampled_from(["mem", "cache", "file"]))
    n = len(spec["rows"])
    spec["opts"] = {"n_prior": draw(st.one_of(st.none(), st.integers(1, n))),
                    "max_post": draw(st.one_of(st.none(), st.integers(1, n))),
                    "n_linear": draw(st.sampled_from([1, 2])), "randomize": draw(st.booleans()),
                    "n_batches": draw(st.one_of(st.none(), st.integers(1, n + 1))),
                    "rng_seed": draw(st.integers(0, 2**32 - 1))}
    # duplicate some library rows on purpose: ties in likelihood
    if n > 2 and draw(st.booleans()):
        spec["rows"][1] = dict(spec["rows"][0])
    return spec


def real_body_factory(ctx):
    import os

    import astropy.units as u

    import thejoker as tj

    def body(spec):
        o = spec["opts"]
        data = gens.build_data(spec)
        prior = gens.build_prior(spec["prior"])
        smp = gens.build_samples(spec)
        n = len(smp)
        with ctx.sut("marginal_ln_likelihood"):
            ll_all = np.asarray(tj.TheJoker(prior).marginal_ln_likelihood(data, smp, in_memory=True), dtype=float)
        if not np.all(np.isfinite(ll_all)):
            raise Violation("non-finite likelihood for valid input", ll=ll_all)
        rg = RecordingGenerator(np.random.PCG64(o["rng_seed"]))
        joker = tj.TheJoker(prior, rng=rg)
        kw = dict(n_prior_samples=o["n_prior"], max_posterior_samples=o["max_post"], n_linear_samples=o["n_linear"],
                  randomize_prior_order=o["randomize"], n_batches=o["n_batches"], return_all_logprobs=True)
        with ctx.sut("rejection_sample[%s]" % spec["path"]):
            if spec["path"] == "file":
                fn = os.path.join(ctx.workdir, "c02real.hdf5")
                smp.write(fn, overwrite=True)
                out, lls = joker.rejection_sample(data, fn, **kw)
            else:
                out, lls = joker.rejection_sample(data, smp, in_memory=spec["path"] == "mem", **kw)
        case = {"n": n, "path": spec["path"], "n_prior": o["n_prior"], "randomize": o["randomize"]}
        order = rej.evaluation_order(case, rg)
        if not np.array_equal(np.asarray(lls), ll_all[order]):
            # same arithmetic on the same rows: the values used by the rejection step must be those of an
            # independent likelihood call (file path converts units by another route: allow round-off)
            if not np.allclose(np.asarray(lls), ll_all[order], rtol=1e-9, atol=1e-9):
                raise Violation("likelihoods used by the rejection step differ from marginal_ln_likelihood",
                                used=np.asarray(lls)[:8], independent=ll_all[order][:8])
        un = rg.calls("uniform")
        if len(un) != 1 or np.shape(un[0]["out"]) != (len(order),):
            raise Violation("expected exactly one uniform(size=%d) draw" % len(order), calls=len(un))
        uu = np.asarray(un[0]["out"])
        pos_all = rej.accepted_from(np.asarray(lls), uu)
        pos = pos_all if o["max_post"] is None else pos_all[:o["max_post"]]
        rows = np.repeat(order[pos], o["n_linear"])
        if len(out) != len(rows):
            raise Violation("number of returned rows differs from the acceptance rule applied to the captured draws",
                            got=len(out), want=len(rows))
        du = og.unit(spec["surveys"][0]["unit"])
        internal = {"P": u.day, "e": u.one, "omega": u.rad, "M0": u.rad, "s": du}
        for nm in ("P", "e", "omega", "M0", "s"):
            got = out[nm].to_value(internal[nm])
            exp = smp[nm].to_value(internal[nm])[rows]
            if not np.allclose(got, exp, rtol=4e-15, atol=0):
                raise Violation("returned %s values are not the unmodified library values in evaluation order" % nm,
                                got=got[:8], want=exp[:8], library_unit=str(smp[nm].unit))
        nt = 1 < len(pos_all) < len(order) or len(pos) < len(pos_all) or (o["randomize"] and spec["path"] != "mem")
        ctx.note_case(spec, nt, ["real:path:" + spec["path"], "real:accepted:%s" % ("1" if len(pos_all) == 1 else "some")])

    return body


def run(ctx):
    big = not ctx.quick
    ctx.search("large", rej.large_cases(), body_factory(ctx), quick=4, thorough=60)
    ctx.search("scripted", rej.rejection_cases(max_n=400 if big else 60), body_factory(ctx), quick=1500, thorough=40000)
    ctx.search("real_kernel", real_cases(), real_body_factory(ctx), quick=250, thorough=6000)
