"""Entry point (kept separate so that vt.runner is imported exactly once, under its own name)."""
import sys

from vt.runner import main

if __name__ == "__main__":
    sys.exit(main())
