#!/bin/sh
# run every registered quick check at several seeds (false-alarm hunt); evidence goes to a scratch dir
cd "$(dirname "$0")/.." || exit 2
export VERIF_EVIDENCE_DIR="${VERIF_EVIDENCE_DIR:-/tmp/vt_multiseed_evidence}"
for seed in ${SEEDS:-2 3 4 5 6 7}; do
  for id in $(python3 -c "import json;print(' '.join(c['property_id'] for c in json.load(open('MANIFEST.json'))['checks']))"); do
    VERIF_SEED=$seed ./check "$id" --tier "${1:-quick}" 2>&1 | grep -v "Erfa\|warn(" | grep "VIOLATION\|HARNESS\|seed=\|violation in" | cut -c1-220
  done
done
