"""C05 - results do not depend on batching, pool, cache path or call history."""
import os
import shutil

import numpy as np
from hypothesis import strategies as st
from hypothesis.stateful import initialize, precondition, rule

from vt import gens
from vt.machine import LoggedMachine
from vt.runner import Violation

RULE = ("Rule-based state machine holding one problem (1-2 surveys, default or custom K prior, trends), one probe library "
        "(6-20 rows with pairwise distinct likelihoods plus extreme rows: e=0.99, huge jitter, tiny period where the K cap "
        "binds), one persistent kernel helper and one TheJoker. Rules: marginal_ln_likelihood on a generated "
        "subset/permutation through {in memory, object via cache file, file name} with n_batches in 1..N+3 and either a "
        "fresh or the persistent helper; rejection_sample with equal seeds across execution paths, batchings and a "
        "MultiPool; direct posterior draws on extreme rows; dill round trip of the helper; MultiPool(2-3) likelihoods. "
        "Oracle after every step: probe likelihoods bit-identical to those of a fresh helper evaluating the whole "
        "library once, in input order; identical accepted sets across paths for equal seeds. A second search stores "
        "the library in other units (yr / h / min, deg, m/s ...) and compares in-memory, cache and file paths within the "
        "effect of a 4-ulp change of the stored values. A history is non-trivial "
        "when a posterior draw or an extreme row preceded a probe and at least two different paths/batchings were "
        "compared."
        ' Also: rule rej_prefix (first n_prior_samples rows for several batchings, from file and object).')
SHARDS = {"quick": 4, "thorough": 16}
BUDGET = {"quick": 80, "thorough": 800}


@st.composite
def init_cases(draw):
    spec = draw(gens.problems(max_surveys=2, max_epochs=8, max_poly=3, n_rows=(6, 20), units=False, data_kinds=("list",), allow_f4=True))
    spec["time_input"] = "float"
    rows = spec["rows"]
    # extreme rows
    rows.append(dict(rows[0], e=0.99))
    rows.append(dict(rows[1], s=abs(rows[1]["s"]) * 1e4 + 1e3, M0=rows[1]["M0"] + 0.37))
    rows.append(dict(rows[2], P=1e-3, e=0.9))
    return spec


def machine_factory(ctx):
    import dill

    import thejoker as tj

    class Paths(LoggedMachine):
        def setup(self):
            self.ready = False
            self.dir = os.path.join(ctx.workdir, "c05-%d" % id(self))
            os.makedirs(self.dir, exist_ok=True)
            self.paths_used = set()
            self.stress_before_probe = False
            self.stressed = False
            self.kinds = []
            self.n_multipool = 0

        def cleanup(self):
            shutil.rmtree(self.dir, ignore_errors=True)

        # ------------------------------------------------------------------ rules
        @initialize(spec=init_cases())
        def init(self, spec):
            self.step("init", spec=spec)

        @precondition(lambda self: self.ready)
        @rule(path=st.sampled_from(["mem", "cache", "file"]), sub_seed=st.integers(0, 10**6), n_batches=st.integers(1, 24),
              persistent=st.booleans())
        def mll(self, path, sub_seed, n_batches, persistent):
            self.step("mll", path=path, sub_seed=sub_seed, n_batches=n_batches, persistent=persistent)

        @precondition(lambda self: self.ready)
        @rule(seed=st.integers(0, 2**31), n_batches=st.integers(1, 12), n_linear=st.sampled_from([1, 2]),
              max_post=st.one_of(st.none(), st.integers(1, 10)), multipool=st.sampled_from([False] * 9 + [True]))
        def rej(self, seed, n_batches, n_linear, max_post, multipool):
            self.step("rej", seed=seed, n_batches=n_batches, n_linear=n_linear, max_post=max_post, multipool=multipool)

        @precondition(lambda self: self.ready)
        @rule(seed=st.integers(0, 2**31), n_linear=st.integers(1, 4), which=st.sampled_from(["extreme", "all"]))
        def posterior(self, seed, n_linear, which):
            self.step("posterior", seed=seed, n_linear=n_linear, which=which)

        @precondition(lambda self: self.ready)
        @rule(seed=st.integers(0, 2**31), n_batches=st.integers(1, 9), n_prior=st.one_of(st.none(), st.integers(1, 8)))
        def rej_shuffled(self, seed, n_batches, n_prior):
            self.step("rej_shuffled", seed=seed, n_batches=n_batches, n_prior=n_prior)

        @precondition(lambda self: self.ready)
        @rule(seed=st.integers(0, 2**31), n_batches=st.integers(2, 9), n_prior=st.integers(1, 40))
        def rej_prefix(self, seed, n_batches, n_prior):
            self.step("rej_prefix", seed=seed, n_batches=n_batches, n_prior=n_prior)

        @precondition(lambda self: self.ready)
        @rule(seed=st.integers(0, 2**31), init_batch=st.integers(1, 12))
        def iter_rounds(self, seed, init_batch):
            self.step("iter_rounds", seed=seed, init_batch=init_batch)

        @precondition(lambda self: self.ready)
        @rule(factor=st.sampled_from([0.1, 3.0, 25.0]), path=st.sampled_from(["mem", "cache"]))
        def other_data(self, factor, path):
            self.step("other_data", factor=factor, path=path)

        @precondition(lambda self: self.ready)
        @rule(which=st.sampled_from(["yr_deg", "h", "names"]))
        def user_pack(self, which):
            self.step("user_pack", which=which)

        @precondition(lambda self: self.ready)
        @rule()
        def pickle_helper(self):
            self.step("pickle_helper")

        @precondition(lambda self: self.ready and self.n_multipool < 1)
        @rule(k=st.integers(2, 3), n_batches=st.integers(1, 9))
        def multipool_mll(self, k, n_batches):
            self.step("multipool_mll", k=k, n_batches=n_batches)

        # ------------------------------------------------------------------ implementations
        def do_init(self, spec):
            self.spec = spec
            with ctx.sut("building the problem"):
                self.data = gens.build_data(spec)
                self.prior = gens.build_prior(spec["prior"])
                self.lib = gens.build_samples(spec)
                self.joker = tj.TheJoker(self.prior, rng=np.random.default_rng(0))
                self.helper = self.joker._make_joker_helper(self.data)
                self.base = np.asarray(tj.TheJoker(self.prior).marginal_ln_likelihood(self.data, self.lib, in_memory=True))
            self.n = len(self.lib)
            self.libfile = os.path.join(self.dir, "lib.hdf5")
            self.lib.write(self.libfile, overwrite=True)
            if not np.all(np.isfinite(self.base)):
                raise Violation("non-finite likelihood for valid input", ll=self.base)
            self.chunk, _ = self.lib.pack(units=self.helper.internal_units, names=self.helper.packed_order)
            self.chunk = np.ascontiguousarray(self.chunk, dtype=np.float64)  # (the public paths up-cast float32 libraries)
            self.distinct = len(set(self.base.tolist()))
            self.ready = True

        def _expect(self, got, idx, what):
            got = np.asarray(got, dtype=float)
            want = self.base[idx]
            if got.shape != want.shape or got.tobytes() != want.tobytes():
                bad = np.where(got != want)[0] if got.shape == want.shape else []
                raise Violation("%s: likelihoods differ from those of a fresh helper (or are out of order)" % what,
                                positions=list(map(int, bad[:8])), got=got[:8], want=want[:8],
                                history=[l[0] for l in self.log][-8:])

        def do_mll(self, path, sub_seed, n_batches, persistent):
            g = np.random.default_rng(sub_seed)
            m = int(g.integers(1, self.n + 1))
            idx = g.permutation(self.n)[:m] if g.random() < 0.7 else np.sort(g.permutation(self.n)[:m])
            sub = self.lib[idx]
            if persistent:
                joker = tj.TheJoker(self.prior)
                joker._make_joker_helper = lambda data: self.helper
            else:
                joker = self.joker  # one TheJoker object for the whole history
            with ctx.sut("marginal_ln_likelihood[%s]" % path):
                if path == "mem":
                    ll = joker.marginal_ln_likelihood(self.data, sub, in_memory=True)
                elif path == "cache":
                    ll = joker.marginal_ln_likelihood(self.data, sub, n_batches=n_batches)
                else:
                    fn = os.path.join(self.dir, "sub.hdf5")
                    sub.write(fn, overwrite=True)
                    ll = joker.marginal_ln_likelihood(self.data, fn, n_batches=n_batches)
            self._expect(ll, idx, "marginal_ln_likelihood[%s, n_batches=%d, %s helper]" % (
                path, n_batches, "persistent" if persistent else "fresh"))
            self.paths_used.add((path, min(n_batches, 3) if path != "mem" else 0))
            if self.stressed:
                self.stress_before_probe = True
            self.kinds.append("mll:" + path)

        def do_rej(self, seed, n_batches, n_linear, max_post, multipool):
            results = {}
            combos = [("mem", None), ("cache", n_batches), ("file", max(1, n_batches // 2))]
            for path, nb in combos:
                joker = tj.TheJoker(self.prior, rng=np.random.default_rng(seed))
                with ctx.sut("rejection_sample[%s]" % path):
                    if path == "mem":
                        out = joker.rejection_sample(self.data, self.lib, in_memory=True, n_linear_samples=n_linear,
                                                     max_posterior_samples=max_post)
                    elif path == "cache":
                        out = joker.rejection_sample(self.data, self.lib, n_batches=nb, n_linear_samples=n_linear,
                                                     max_posterior_samples=max_post)
                    else:
                        out = joker.rejection_sample(self.data, self.libfile, n_batches=nb, n_linear_samples=n_linear,
                                                     max_posterior_samples=max_post)
                results[(path, nb)] = np.asarray(out["P"].value)[::n_linear].copy()
            if multipool:
                from schwimmbad import MultiPool
                with MultiPool(2) as mp:
                    joker = tj.TheJoker(self.prior, rng=np.random.default_rng(seed), pool=mp)
                    with ctx.sut("rejection_sample[MultiPool]"):
                        out = joker.rejection_sample(self.data, self.libfile, n_batches=n_batches, n_linear_samples=n_linear,
                                                     max_posterior_samples=max_post)
                results[("multipool", n_batches)] = np.asarray(out["P"].value)[::n_linear].copy()
            ref_key = ("mem", None)
            for key, val in results.items():
                if val.tobytes() != results[ref_key].tobytes():
                    raise Violation("equal seeds: accepted set differs between execution paths",
                                    path_a=str(ref_key), accepted_a=results[ref_key][:10], path_b=str(key), accepted_b=val[:10])
            self.stressed = True
            self.kinds.append("rej" + (":multipool" if multipool else ""))

        def do_posterior(self, seed, n_linear, which):
            rows = self.chunk[-3:] if which == "extreme" else self.chunk
            with ctx.sut("batch_get_posterior_samples"):
                self.helper.batch_get_posterior_samples(np.ascontiguousarray(rows), n_linear, np.random.default_rng(seed))
            with ctx.sut("batch_marginal_ln_likelihood"):
                ll = np.array(self.helper.batch_marginal_ln_likelihood(self.chunk))
            self._expect(ll, np.arange(self.n), "persistent helper after posterior draws on %s rows" % which)
            # one row at a time, reversed
            with ctx.sut("batch_marginal_ln_likelihood"):
                single = np.array([np.array(self.helper.batch_marginal_ln_likelihood(self.chunk[i:i + 1]))[0]
                                   for i in range(self.n - 1, -1, -1)])[::-1]
            self._expect(single, np.arange(self.n), "persistent helper, one sample at a time in reverse order")
            self.stressed = True
            self.stress_before_probe = True
            self.kinds.append("posterior:" + which)

        def do_rej_shuffled(self, seed, n_batches, n_prior):
            """shuffled evaluation order: likelihoods must come back in that order, whatever the batching"""
            from vt.recgen import RecordingGenerator

            n_prior = None if n_prior is None else min(n_prior, self.n)
            outs = []
            for nb in (1, n_batches):
                rg = RecordingGenerator(np.random.PCG64(seed))
                joker = tj.TheJoker(self.prior, rng=rg)
                with ctx.sut("rejection_sample(randomize_prior_order=True)"):
                    out, lls = joker.rejection_sample(self.data, self.libfile, randomize_prior_order=True, n_prior_samples=n_prior,
                                                      n_batches=nb, return_all_logprobs=True)
                ch = rg.calls("choice")
                if len(ch) != 1:
                    raise Violation("expected one rng.choice call for the shuffled order, saw %d" % len(ch))
                idx = np.asarray(ch[0]["out"])
                self._expect(lls, idx, "shuffled order, n_batches=%d" % nb)
                outs.append((idx.tobytes(), np.asarray(out["P"].value).tobytes()))
            if outs[0] != outs[1]:
                raise Violation("equal seeds: shuffled rejection sampling depends on n_batches")
            # the same library handed over as an object (cache file written by the sampler) must behave like the file
            rg = RecordingGenerator(np.random.PCG64(seed))
            joker = tj.TheJoker(self.prior, rng=rg)
            with ctx.sut("rejection_sample(object, randomize_prior_order=True)"):
                out, lls = joker.rejection_sample(self.data, self.lib, randomize_prior_order=True, n_prior_samples=n_prior,
                                                  n_batches=n_batches, return_all_logprobs=True)
            idx = np.asarray(rg.calls("choice")[0]["out"])
            if (idx.tobytes(), np.asarray(out["P"].value).tobytes()) != outs[1]:
                raise Violation("equal seeds: a library passed as an object and the same library passed as a file give "
                                "different shuffled subsets / accepted samples", object_order=idx[:10])
            self.paths_used.add(("shuffled", min(n_batches, 3)))
            self.kinds.append("rej_shuffled")

        def do_rej_prefix(self, seed, n_batches, n_prior):
            """only the first n_prior_samples rows of the library, in file order: the same rows, likelihoods and accepted
            samples for every batching, from a file and from an object"""
            k = max(1, min(n_prior, self.n - 1)) if self.n > 1 else 1
            outs = []
            for src, nb in ((self.libfile, 1), (self.libfile, n_batches), (self.lib, n_batches), (self.libfile, k + 3)):
                joker = tj.TheJoker(self.prior, rng=np.random.default_rng(seed))
                with ctx.sut("rejection_sample(n_prior_samples=%d, n_batches=%d)" % (k, nb)):
                    out, lls = joker.rejection_sample(self.data, src, n_prior_samples=k, n_batches=nb, return_all_logprobs=True)
                self._expect(lls, np.arange(k), "first %d rows of a %d-row library, n_batches=%d" % (k, self.n, nb))
                outs.append(np.asarray(out["P"].value).tobytes())
            if len(set(outs)) != 1:
                raise Violation("equal seeds: rejection sampling of the first n_prior_samples rows depends on n_batches / on "
                                "whether the library is a file or an object")
            self.paths_used.add(("prefix", min(n_batches, 3)))
            self.kinds.append("rej_prefix")

        def do_iter_rounds(self, seed, init_batch):
            """iterative sampling that cannot be satisfied by the library (as many samples requested as there are rows): a
            small first round, then everything that is left.  When the in-memory and the cache-file implementation go
            through the same rounds they draw the same uniforms, so they must accept the same prior samples."""
            from vt.recgen import RecordingGenerator

            if self.n < 3:
                return
            k = max(1, min(init_batch, self.n - 2))
            res = {}
            for path, src in (("mem", self.lib), ("cache", self.lib), ("file", self.libfile)):
                rg = RecordingGenerator(np.random.PCG64(seed))
                joker = tj.TheJoker(self.prior, rng=rg)
                try:
                    out = joker.iterative_rejection_sample(self.data, src, n_requested_samples=self.n, init_batch_size=k,
                                                           in_memory=(path == "mem"))
                    val = np.asarray(out["P"].value).tobytes()
                except Exception as e_:
                    val = "raised " + type(e_).__name__
                res[path] = ([int(np.size(c_["out"])) for c_ in rg.calls("uniform")], val)
            if res["cache"] != res["file"]:
                raise Violation("equal seeds: iterative sampling from a library object (temporary cache) and from the same library "
                                "as a file differ", rounds_object=res["cache"][0], rounds_file=res["file"][0])
            if res["mem"][0] == res["file"][0] and len(res["mem"][0]) >= 2 and res["mem"][1] != res["file"][1]:
                raise Violation("equal seeds, equal rounds %s: the in-memory and the cache-file iterative sampler accept different "
                                "prior samples" % (res["mem"][0],), in_memory=repr(res["mem"][1])[:80], cache_file=repr(res["file"][1])[:80])
            if res["mem"][0] == res["file"][0] and len(res["mem"][0]) >= 2:
                self.paths_used.add(("iter_rounds", 2))
            self.kinds.append("iter_rounds" + (":comparable" if res["mem"][0] == res["file"][0] and len(res["mem"][0]) >= 2 else ""))

        def do_other_data(self, factor, path):
            """the same TheJoker evaluates another data set (same epochs and velocities, other uncertainties)"""
            spec2 = dict(self.spec, surveys=[dict(sv, err=[e * factor for e in sv["err"]]) for sv in self.spec["surveys"]])
            data2 = gens.build_data(spec2)
            with ctx.sut("marginal_ln_likelihood on another data set"):
                got = np.asarray(self.joker.marginal_ln_likelihood(data2, self.lib, in_memory=path == "mem"))
                want = np.asarray(tj.TheJoker(self.prior).marginal_ln_likelihood(data2, self.lib, in_memory=True))
            if got.tobytes() != want.tobytes():
                raise Violation("a TheJoker that evaluated one data set before gives other likelihoods for a second data set "
                                "than a fresh TheJoker", got=got[:6], want=want[:6], history=[l[0] for l in self.log][-8:])
            self.stressed = True
            self.kinds.append("other_data")

        def do_user_pack(self, which):
            """the user packs a table in units of their own choice (public API): later results must not change"""
            import astropy.units as u
            with ctx.sut("JokerSamples.pack with user units"):
                if which == "yr_deg":
                    self.lib.pack(units={"P": u.yr, "omega": u.deg, "M0": u.deg})
                elif which == "h":
                    self.lib.pack(units={"P": u.hour}, nonlinear_only=False)
                else:
                    self.lib.pack(names=["M0", "P"], units={"M0": u.deg})
            self.stressed = True
            self.kinds.append("user_pack")

        def do_pickle_helper(self):
            with ctx.sut("pickling the helper"):
                h2 = dill.loads(dill.dumps(self.helper))
                ll = np.array(h2.batch_marginal_ln_likelihood(self.chunk))
            self._expect(ll, np.arange(self.n), "helper rebuilt from its pickle")
            self.kinds.append("pickle")

        def do_multipool_mll(self, k, n_batches):
            self.n_multipool += 1
            from schwimmbad import MultiPool
            with MultiPool(k) as mp:
                joker = tj.TheJoker(self.prior, pool=mp)
                with ctx.sut("marginal_ln_likelihood[MultiPool(%d)]" % k):
                    ll = joker.marginal_ln_likelihood(self.data, self.libfile, n_batches=n_batches)
                    ll2 = joker.marginal_ln_likelihood(self.data, self.lib)
            self._expect(ll, np.arange(self.n), "MultiPool(%d), n_batches=%d, file" % (k, n_batches))
            self._expect(ll2, np.arange(self.n), "MultiPool(%d), default batching, object through cache" % k)
            self.paths_used.add(("multipool", k))
            self.kinds.append("multipool_mll")

        def finish(self):
            if not self.ready:
                return
            # closing probe after the whole history: two different paths / batchings on the complete library
            self.do_mll("mem", 0, 1, True)
            self.do_mll("cache", 1, 3, False)
            nt = self.stress_before_probe and len(self.paths_used) >= 2
            ctx.note_case(self.log, nt, sorted(set(self.kinds)) + ["distinct probe values=%s" % ("all" if self.distinct == self.n else "some ties")])

    return Paths


# ----------------------------------------------------------------------------- libraries stored in other units
@st.composite
def unit_cases(draw):
    spec = draw(gens.problems(max_surveys=2, max_epochs=8, max_poly=2, n_rows=(4, 16), units=True))
    spec["n_batches"] = draw(st.integers(1, 6))
    spec["sub_seed"] = draw(st.integers(0, 10**6))
    return spec


def unit_body_factory(ctx):
    import astropy.units as u

    import thejoker as tj

    def body(spec):
        data = gens.build_data(spec)
        prior = gens.build_prior(spec["prior"])
        lib = gens.build_samples(spec)
        n = len(lib)
        joker = tj.TheJoker(prior)
        with ctx.sut("marginal_ln_likelihood (in memory)"):
            base = np.asarray(joker.marginal_ln_likelihood(data, lib, in_memory=True), dtype=float)
            # how much a 4-ulp change of the stored values moves the result (the paths convert units by
            # different but equivalent routes: Quantity.to_value vs. value * factor)
            pert = tj.JokerSamples(poly_trend=lib.poly_trend, n_offsets=lib.n_offsets)
            for nm in lib.par_names:
                pert[nm] = lib[nm] * (1 + 8.9e-16) if nm != "e" else lib[nm]
            moved = np.asarray(joker.marginal_ln_likelihood(data, pert, in_memory=True), dtype=float)
        tol = 4 * np.abs(moved - base) + 1e-9 * (1 + np.abs(base))
        g = np.random.default_rng(spec["sub_seed"])
        idx = g.permutation(n)[: int(g.integers(1, n + 1))]
        sub = lib[idx]
        fn = os.path.join(ctx.workdir, "c05units.hdf5")
        sub.write(fn, overwrite=True)
        with ctx.sut("marginal_ln_likelihood (cache / file)"):
            a = np.asarray(joker.marginal_ln_likelihood(data, sub, n_batches=spec["n_batches"]), dtype=float)
            b = np.asarray(joker.marginal_ln_likelihood(data, fn, n_batches=max(1, spec["n_batches"] // 2)), dtype=float)
        for what, got in (("object through the cache file", a), ("file name", b)):
            if got.shape != (len(idx),) or not np.all(np.abs(got - base[idx]) <= tol[idx]):
                raise Violation("likelihoods of a library stored in other units differ between the in-memory path and the "
                                "%s path" % what, units=spec["row_units"], in_memory=base[idx][:6], other=got[:6],
                                allowed=tol[idx][:6])
        ru = spec["row_units"]
        nt = ru["P"] != "d" or ru["omega"] != "rad" or ru["M0"] != "rad" or ru["s"] is not None
        ctx.note_case(spec, nt, ["units:P=" + ru["P"], "units:angles=%s/%s" % (ru["omega"], ru["M0"]), "units:n_batches=%d" % min(spec["n_batches"], 3)])

    return body


def run(ctx):
    ctx.search("unit_paths", unit_cases(), unit_body_factory(ctx), quick=240, thorough=6000)
    ctx.machine("paths", lambda: machine_factory(ctx), quick=160, thorough=3200, steps_quick=16, steps_thorough=40)
