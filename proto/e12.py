from ref import *
import time
from scipy.stats import norm, beta, lognorm
r = np.random.default_rng(0); n=6
t = 56000 + np.sort(r.uniform(0, 300, n))
data = tj.RVData(t=t, rv=r.normal(0,5,n)*u.km/u.s, rv_err=r.uniform(0.1,0.5,n)*u.km/u.s)
def build(Kunit, sunit, Punit):
    with pm.Model() as model:
        s = xu.with_unit(pm.Lognormal('s', 0., 0.5), sunit)
        K = xu.with_unit(pm.Normal('K', 0., 7.*(u.km/u.s).to(Kunit)), Kunit)
        P = xu.with_unit(pm.Uniform('P', (2*u.day).to_value(Punit), (500*u.day).to_value(Punit)), Punit)
        prior = tj.JokerPrior.default(sigma_v=[100*u.km/u.s, 0.2*u.km/u.s/u.day], poly_trend=2, s=s, pars={'K':K, 'P':P})
    return prior
def evaluate(prior, point_phys):
    joker = tj.TheJoker(prior)
    smp = tj.JokerSamples(poly_trend=2, t_ref=data.t_ref)
    for k,v in point_phys.items(): smp[k] = u.Quantity([v.value], v.unit) if hasattr(v,'unit') else [v]
    with prior.model: init = joker.setup_mcmc(data, smp)
    m = prior.model
    # build value point: from init dict (in prior units)
    ip = m.initial_point()
    pt = dict(ip)
    pt['s_log__'] = np.log(init['s']); pt['e_logodds__'] = np.log(init['e']/(1-init['e']))
    pt['__omega_angle1'] = np.sin(init['omega']); pt['__omega_angle2'] = np.cos(init['omega'])
    pt['__M0_angle1'] = np.sin(init['M0']); pt['__M0_angle2'] = np.cos(init['M0'])
    if 'P_interval__' in pt:
        lo, hi = (2*u.day).to_value(xu_unit(prior,'P')), (500*u.day).to_value(xu_unit(prior,'P'))
        pt['P_interval__'] = np.log((init['P']-lo)/(hi-init['P']))
    for k in ['K','v0','v1']: pt[k] = init[k]
    outs = m.replace_rvs_by_values([m['omega'], m['M0'], m['P'], m['model_rv'], m['logp'], m['ln_likelihood'], m['ln_prior']]); f = m.compile_fn(outs, point_fn=True)
    return init, f(pt)
def xu_unit(prior, name): return getattr(prior.pars[name], xu.UNIT_ATTR_NAME)
point = dict(P=13.7*u.day, e=0.3, omega=1.1*u.rad, M0=2.2*u.rad, s=0.7*u.km/u.s, K=4.2*u.km/u.s, v0=1.5*u.km/u.s, v1=0.01*u.km/u.s/u.day)
M = design(data._t_bmjd, data._t_ref_bmjd, np.zeros(n,int), 2, 13.7, 0.3, 1.1, 2.2)
rv_ref = M @ np.array([4.2, 1.5, 0.01])
lnlike_ref = norm.logpdf(data.rv.value, rv_ref, np.sqrt(data.rv_err.value**2 + 0.7**2)).sum()
print("ref rv", rv_ref, "lnlike(with s)", lnlike_ref, "lnlike(no s)", norm.logpdf(data.rv.value, rv_ref, data.rv_err.value).sum())
for Kunit, sunit, Punit in [(u.km/u.s, u.km/u.s, u.day), (u.m/u.s, u.km/u.s, u.day), (u.km/u.s, u.m/u.s, u.day), (u.km/u.s, u.km/u.s, u.yr)]:
    t0=time.time()
    init, out = evaluate(build(Kunit, sunit, Punit), point)
    om, M0, P, rv, logp, lnl, lnp = out
    print(Kunit, sunit, Punit, "| omega,M0,P", om, M0, P, "| rv err", np.max(np.abs(rv - rv_ref)), "| lnlike", lnl, "| %.1fs"%(time.time()-t0))
