from ref import *
import time, random
def mkdata(n, unit=u.km/u.s, base=56000., span=300., seed=0, errscale=1.):
    r = np.random.default_rng(seed)
    t = base + np.sort(r.uniform(0, span, n))
    return tj.RVData(t=t, rv=r.normal(0,5,n)*unit, rv_err=errscale*r.uniform(0.1,0.5,n)*unit)
def mksamples(N, s=0., pt=1, no=0, seed=1, lnp=False, t_ref=None):
    r = np.random.default_rng(seed)
    smp = tj.JokerSamples(poly_trend=pt, n_offsets=no, t_ref=t_ref)
    smp['P'] = r.uniform(2, 500, N)*u.day; smp['e'] = r.uniform(0,0.9,N); smp['omega']=r.uniform(0,6.28,N)*u.rad
    smp['M0']=r.uniform(0,6.28,N)*u.rad; smp['s']=np.full(N, s)*u.km/u.s
    return smp
data = mkdata(8, errscale=30.)
t0=time.time()
with pm.Model():
    dv = xu.with_unit(pm.Normal('dv0_1', 0, 5.), u.km/u.s)
    prior = tj.JokerPrior.default(P_min=2*u.day, P_max=500*u.day, sigma_K0=30*u.km/u.s, sigma_v=[100*u.km/u.s, 1*u.km/u.s/u.day], poly_trend=2)
print("prior build", time.time()-t0)
smp = mksamples(50, pt=2)
j = tj.TheJoker(prior, rng=np.random.default_rng(1))
for k in range(4):
    t0=time.time(); ll = j.marginal_ln_likelihood(data, smp, in_memory=True); t1=time.time()
    ll = j.marginal_ln_likelihood(data, smp); t2=time.time()
    o = j.rejection_sample(data, smp, in_memory=True); t3=time.time()
    o = j.rejection_sample(data, smp); t4=time.time()
    print("inmem ll %.3f file ll %.3f inmem rs %.3f file rs %.3f"%(t1-t0,t2-t1,t3-t2,t4-t3))
st = np.random.get_state()[1][:8].copy(); pst = random.getstate()
o = j.rejection_sample(data, 50)
print("by-count: np global untouched:", np.array_equal(st, np.random.get_state()[1][:8]), "py:", pst == random.getstate())
s = prior.sample(size=3)
print("prior.sample(rng=None): np global untouched:", np.array_equal(st, np.random.get_state()[1][:8]))
from thejoker.distributions import UniformLog
for v in [0.5, 2., 10., 500., 600., -1.]:
    print(v, pm.logp(UniformLog.dist(2., 500.), v).eval(), "true", -np.log(v)-np.log(np.log(250)) if 2<=v<=500 else -np.inf)
d = pm.draw(UniformLog.dist(2., 500.), draws=5, random_seed=np.random.default_rng(0)); print(d)
