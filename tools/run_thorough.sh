#!/bin/sh
# every registered thorough check once (evidence to a scratch dir unless VERIF_EVIDENCE_DIR is unset by the caller)
cd "$(dirname "$0")/.." || exit 2
export VERIF_EVIDENCE_DIR="${VERIF_EVIDENCE_DIR-/tmp/vt_thorough_evidence}"
for id in ${IDS:-$(python3 -c "import json;print(' '.join(c['property_id'] for c in json.load(open('MANIFEST.json'))['checks']))")}; do
  ./check "$id" --tier thorough 2>&1 | grep -v "Erfa\|warn(" | grep "VIOLATION\|HARNESS\|seed=\|violation in" | cut -c1-220
done
