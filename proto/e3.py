from ref import *
import itertools, time
rng = np.random.default_rng(5)
def mkdata(n, unit=u.km/u.s, base=56000., span=300.):
    t = base + np.sort(rng.uniform(0, span, n))
    return tj.RVData(t=t, rv=rng.normal(0,5,n)*unit, rv_err=rng.uniform(0.1,0.5,n)*unit)

def run(poly_trend, n_off, customK, muK=0., muv=0., s=0.):
    with pm.Model() as model:
        pars = {}
        if customK:
            pars['K'] = xu.with_unit(pm.Normal('K', muK, 7.), u.km/u.s)
        sig = [100*u.km/u.s, 0.3*u.km/u.s/u.day, 1e-3*u.km/u.s/u.day**2][:poly_trend]
        if muv:
            pars['v0'] = xu.with_unit(pm.Normal('v0', muv, 100.), u.km/u.s)
            for i in range(1, poly_trend):
                pars[f'v{i}'] = xu.with_unit(pm.Normal(f'v{i}', 0.01*i, sig[i].value), sig[i].unit)
        offs = [xu.with_unit(pm.Normal(f'dv0_{i+1}', 0.5*(i+1) if muv else 0., 2.+i), u.km/u.s) for i in range(n_off)]
        kw = dict(P_min=2*u.day, P_max=500*u.day, sigma_v=sig if poly_trend>1 else sig[0], poly_trend=poly_trend, v0_offsets=offs, pars=pars or None)
        if not customK: kw['sigma_K0'] = 30*u.km/u.s
        prior = tj.JokerPrior.default(**kw)
    datas = [mkdata(5+i) for i in range(n_off+1)]
    # non-interleaved: shift each survey later in time so concatenation order == time order
    datas = [tj.RVData(t=d.t.mjd + 1000*i, rv=d.rv, rv_err=d.rv_err) for i,d in enumerate(datas)]
    data = datas if n_off else datas[0]
    N = 4
    smp = tj.JokerSamples(poly_trend=poly_trend, n_offsets=n_off)
    smp['P'] = rng.uniform(2, 500, N)*u.day; smp['e'] = rng.uniform(0,0.9,N); smp['omega']=rng.uniform(0,6.28,N)*u.rad
    smp['M0']=rng.uniform(0,6.28,N)*u.rad; smp['s']=np.full(N, s)*u.km/u.s
    joker = tj.TheJoker(prior)
    ll = joker.marginal_ln_likelihood(data, smp, in_memory=True)
    # ref
    t = np.concatenate([d._t_bmjd for d in datas]); y = np.concatenate([d.rv.value for d in datas]); er = np.concatenate([d.rv_err.value for d in datas])
    ids = np.concatenate([[i]*len(d) for i,d in enumerate(datas)])
    t0 = t.min()
    out = []
    for i in range(N):
        P,e,om,M0 = (smp[k][i].value for k in ['P','e','omega','M0'])
        M = design(t, t0, ids, poly_trend, P,e,om,M0)
        if customK: varK = 49.
        else: varK = min(30.**2/(1-e**2)*(P/365.25)**(-2/3), 500.**2)
        Lam = [varK, 100.**2] + [(2.+k)**2 for k in range(n_off)] + [sig[k].value**2 for k in range(1,poly_trend)]
        mu = [muK if customK else 0., muv] + [0.5*(k+1) if muv else 0. for k in range(n_off)] + [0.01*k if muv else 0. for k in range(1,poly_trend)]
        out.append(ln_marg(y, er**2+s**2, M, np.array(mu), np.array(Lam)))
    return ll, np.array(out)

for pt, no, ck, muK, muv, s in [(1,0,False,0,0,0),(2,0,False,0,0,0),(3,0,False,0,0,0),(1,1,False,0,0,0),(1,2,False,0,0,0),(2,2,False,0,0,0),
                     (1,0,True,0,0,0),(1,0,True,3.,0,0),(1,1,True,0,0,0),(2,1,True,3.,0,0),(1,0,False,0,12.,0),(2,1,False,0,12.,0),(3,2,True,3.,12.,0)]:
    try:
        ll, r = run(pt,no,ck,muK,muv,s)
        print(pt,no,ck,muK,muv,s, "maxabs diff", np.max(np.abs(ll-r)), ll[:2], r[:2])
    except Exception as ex:
        print(pt,no,ck,muK,muv,s, "EXC", type(ex).__name__, str(ex)[:200])
