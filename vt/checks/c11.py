"""C11 - MCMC continuation targets the same model and posterior as the sampler."""
import math

import numpy as np
from hypothesis import strategies as st

from vt import gens
from vt import oracle_gauss as og
from vt.runner import Violation

RULE = ("Prior configurations of the C01 grammar assembled through JokerPrior.default (poly_trend 1-3, 0-2 offsets, "
        "constant or sampled jitter, default or custom K prior, log-uniform or uniform period prior, every parameter in "
        "a random equivalent unit) x data (1-3 surveys, random layouts and units); setup_mcmc is run once per "
        "configuration and its model compiled once, then evaluated at 24 generated parameter points [thorough 96] "
        "(angles on the unit circle of the angle parametrisation, so its regulariser is constant). Oracle: model_rv == "
        "M(theta) x of the sampler's design matrix (independent Kepler solve) in the data unit; model.logp(jacobian=False) "
        "- [sum of declared prior log-densities + ln N(y | model, sigma^2+s^2)] is one constant over the points; the "
        "ln_likelihood deterministic == that Gaussian term and ln_prior == logp - ln_likelihood; mcmc_init == the chosen "
        "sample (itself, or the median-period member) in the prior's units. Non-trivial: a configuration whose prior "
        "units differ from (day, data unit), or with offsets, poly_trend>=2 or sampled jitter."
        " Also: dict / tuple data, explicit reference epochs on the UTC scale, priors with the eccentricity held constant (0 or 0.3); RV tolerance 1e-6 K (2e-5 K within 1e-3 rad of the pymc Kepler solver's weak spot).")
SHARDS = {"quick": 4, "thorough": 16}
BUDGET = {"quick": 85, "thorough": 800}


@st.composite
def cases(draw, npoints=24):
    spec = draw(gens.problems(max_surveys=3, max_epochs=8, max_poly=3, n_rows=(1, 4), units=True, data_kinds=("list", "list", "dict", "tuple")))
    if spec["data_kind"] == "single" and not spec.get("t_ref") and draw(st.booleans()):
        # an explicit reference epoch, half of the time given on the UTC scale (astropy's default for Time(mjd))
        tt = [x for sv_ in spec["surveys"] for x in sv_["t"]]
        spec["t_ref"] = gens.rounded(min(tt) + (max(tt) - min(tt) + 1.0) * draw(gens.fl(-1.0, 2.0)), 12)
        spec["t_ref_scale"] = draw(st.sampled_from(["tcb", "utc", "utc"]))
    pr = spec["prior"]
    pr["via"] = "default"
    if pr["K"]["kind"] == "fcm":
        pr["K"]["max_K"] = None
    if pr["s"]["kind"] == "const0":
        pr["s"] = {"kind": "const", "unit": pr["s"]["unit"], "value": 0.0}
    if draw(st.integers(0, 5)) == 0:
        pr["e_fixed"] = draw(st.sampled_from([0.0, 0.0, 0.3]))     # a prior that holds the eccentricity constant
    pts = []
    lo = float(og.conv(pr["P"]["min"], pr["P"]["unit"], "d"))
    hi = float(og.conv(pr["P"]["max"], pr["P"]["unit"], "d"))
    nlin = 1 + pr["poly_trend"] + len(pr["offsets"])
    for _ in range(npoints):
        pts.append({"uP": draw(gens.fl(0.02, 0.98)), "e": gens.rounded(draw(gens.fl(0.01, 0.93)), 9),
                    "omega": gens.rounded(draw(gens.fl(-math.pi, math.pi)), 9), "M0": gens.rounded(draw(gens.fl(-math.pi, math.pi)), 9),
                    "zs": draw(gens.fl(-2, 2)), "x": [gens.rounded(draw(gens.fl(-2.5, 2.5)), 9) for _ in range(nlin)]})
    if pr["P"]["kind"] == "uniformlog" and draw(st.booleans()):
        # a sample sitting exactly on a bound of the period prior (clipped or single-precision library values do)
        pts[0]["uP"] = 0.0
        if not pr["P"].get("max_unit"):
            pts[-1]["uP"] = 1.0
    spec["points"] = pts
    spec["P_range_d"] = [lo, hi]
    spec["n_init"] = draw(st.sampled_from([1, 1, 3, 4, 7]))
    spec["init_seed"] = draw(st.integers(0, 10**6))
    return spec


def body_factory(ctx):
    import astropy.units as u
    import pymc as pm
    import scipy.stats as ss

    import thejoker as tj
    import thejoker.units as xu

    def body(spec):
        prob = og.Problem(spec)
        pr = spec["prior"]
        with ctx.sut("building data/prior"):
            data = gens.build_data(spec)
            prior = gens.build_prior(pr)
        du = prob.data_unit
        names_lin = ["K", "v0"] + ["dv0_%d" % (i + 1) for i in range(prob.n_offsets)] + ["v%d" % i for i in range(1, prob.poly_trend)]
        units_prior = {nm: getattr(prior.pars[nm], xu.UNIT_ATTR_NAME) for nm in prior.par_names}
        # ---- joker_samples for the initial point
        n_init = spec["n_init"]
        js = prior.sample(size=n_init, generate_linear=True, rng=np.random.default_rng(spec["init_seed"]))
        js = tj.JokerSamples(js.tbl, t_ref=data.t_ref if not isinstance(data, (list, tuple, dict)) else None,
                             poly_trend=prob.poly_trend, n_offsets=prob.n_offsets)
        if spec["init_seed"] % 2:
            # samples as returned with return_logprobs=True: the documented choice is still the median-period sample
            g_ = np.random.default_rng(spec["init_seed"])
            js["ln_prior"] = g_.normal(size=n_init)
            js["ln_likelihood"] = 10 * g_.normal(size=n_init)
        joker = tj.TheJoker(prior, rng=np.random.default_rng(0))
        with ctx.sut("setup_mcmc"):
            with prior.model:
                init = joker.setup_mcmc(data, js)
        m = prior.model
        # ---- the prior's declared units are inputs as well
        units_after = {nm: getattr(prior.pars[nm], xu.UNIT_ATTR_NAME) for nm in prior.par_names}
        if any(units_after[nm] != units_prior[nm] for nm in units_prior):
            raise Violation("setup_mcmc changed the units declared on the prior's variables (later samples, MCMC starts and "
                            "conversions would be off by the unit ratio)", before={k: str(v) for k, v in units_prior.items()},
                            after={k: str(v) for k, v in units_after.items()})
        # ---- the caller's data are inputs: building the model must leave them as they were
        fresh = gens.build_data(spec)
        pairs = list(zip(data.values(), fresh.values())) if isinstance(data, dict) else (
            list(zip(data, fresh)) if isinstance(data, (list, tuple)) else [(data, fresh)])
        for d_used, d_new in pairs:
            if not (np.array_equal(d_used.rv.value, d_new.rv.value) and np.array_equal(d_used.rv_err.value, d_new.rv_err.value)
                    and np.array_equal(d_used._t_bmjd, d_new._t_bmjd) and d_used.rv_err.unit == d_new.rv_err.unit):
                raise Violation("setup_mcmc modified the RVData object it was given (a second model built from it would describe "
                                "other data)", rv_err_now=d_used.rv_err.value[:6], rv_err_given=d_new.rv_err.value[:6])
        # ---- initial point == chosen sample in the prior's units
        if n_init == 1:
            chosen = 0
        else:
            Ps = js["P"].to_value(u.day)
            order = np.argsort(Ps)
            cands = {int(order[(n_init - 1) // 2]), int(order[n_init // 2])}
            chosen = None
            for cidx in cands:
                if np.isclose(float(init["P"]), js["P"][cidx].to_value(units_prior["P"]), rtol=1e-12):
                    chosen = cidx
            if chosen is None:
                raise Violation("mcmc_init is not the median-period sample", init_P=float(init["P"]),
                                sample_P=js["P"].to_value(units_prior["P"]))
        for nm in prior.par_names:
            want = js[nm][chosen].to_value(units_prior[nm])
            if nm not in init or not np.isclose(float(np.squeeze(init[nm])), want, rtol=1e-12, atol=1e-300):
                raise Violation("mcmc_init[%s] is not the chosen sample's value in the prior's unit" % nm,
                                got=init.get(nm), want=want, unit=str(units_prior[nm]))
        # ---- compile the model once
        with ctx.sut("compiling the model"):
            # deterministics are defined on the random variables: express them on the value variables first
            dets = m.replace_rvs_by_values([m["model_rv"], m["ln_likelihood"], m["ln_prior"], m["logp"]])
            outs = [dets[0], m.logp(jacobian=False), dets[1], dets[2], dets[3]]
            fn = m.compile_fn(outs, point_fn=True)
        value_names = [v.name for v in m.value_vars]
        lo, hi = spec["P_range_d"]
        Ppu = pr["P"]["unit"]
        a_pu, b_pu = pr["P"]["min"], pr["P"]["max"]
        consts = []
        f5 = False
        for pt_ in spec["points"]:
            # physical point, in the prior's own units
            if pr["P"]["kind"] == "uniformlog":
                P_pu = a_pu * (b_pu / a_pu) ** pt_["uP"]
                if pt_["uP"] == 1.0:
                    P_pu = b_pu
            else:
                P_pu = a_pu + (b_pu - a_pu) * pt_["uP"]
            P_d = float(og.conv(P_pu, Ppu, "d"))
            e = pt_["e"] if pr.get("e_fixed") is None else float(pr["e_fixed"])
            sj = pr["s"]
            if sj["kind"] == "lognormal":
                s_pu = math.exp(sj["mu"] + sj["sigma"] * pt_["zs"])
            else:
                s_pu = float(sj.get("value", 0.0))
            s_du = float(og.conv(s_pu, sj["unit"], du))
            row = {"P": P_d, "e": e, "omega": pt_["omega"], "M0": pt_["M0"], "s": s_du}
            mu_du, Lam_du = prob.linear_prior(row)
            x_du = mu_du + np.sqrt(Lam_du) * np.array(pt_["x"])
            # the same values in the prior's units
            lin_units_du = [og.unit(du), og.unit(du)] + [og.unit(du)] * prob.n_offsets + [og.unit(du) / u.day ** i for i in range(1, prob.poly_trend)]
            x_pu = {nm: float((x_du[j] * lin_units_du[j]).to_value(units_prior[nm])) for j, nm in enumerate(names_lin)}
            point = {}
            for vn in value_names:
                if vn == "P":
                    point[vn] = np.array(P_pu)
                elif vn == "P_interval__":
                    point[vn] = np.array(math.log((P_pu - a_pu) / (b_pu - P_pu)))
                elif vn == "e_logodds__":
                    point[vn] = np.array(math.log(e / (1 - e)))
                elif vn == "s_log__":
                    point[vn] = np.array(math.log(s_pu))
                elif vn == "__omega_angle1":
                    point[vn] = np.array(math.sin(pt_["omega"]))
                elif vn == "__omega_angle2":
                    point[vn] = np.array(math.cos(pt_["omega"]))
                elif vn == "__M0_angle1":
                    point[vn] = np.array(math.sin(pt_["M0"]))
                elif vn == "__M0_angle2":
                    point[vn] = np.array(math.cos(pt_["M0"]))
                elif vn in x_pu:
                    point[vn] = np.array(x_pu[vn])
                else:
                    raise Violation("harness: unexpected value variable %s" % vn)
            with ctx.sut("evaluating the model"):
                model_rv, logp_nj, lnlike, lnprior, logp_det = [np.asarray(o, dtype=float) for o in fn(point)]
            # ---- model_rv == M(theta) x
            M = prob.design(row, solver="independent")
            want_rv = M @ x_du
            scale = np.abs(x_du) @ np.max(np.abs(M), axis=0) + 1e-300
            # 2e-5 |K|: the pymc model's own Kepler solver (ops.kepler) is only good to ~5e-7 in a narrow window
            # |M - pi| < 1e-5 at high eccentricity (measured; elsewhere 1e-13) - far below any data error
            Mt = 2 * math.pi * (prob.t - prob.t_ref) / P_d - pt_["M0"]
            near_pi = float(np.min(np.abs(np.mod(Mt, 2 * math.pi) - math.pi))) < 1e-3
            tol = 1e-8 * scale * (1 + 2 * math.pi * (prob.t.max() - prob.t_ref) / P_d * 1e-7 / (1 - e)) + (2e-5 if near_pi else 1e-6) * abs(x_du[0])
            if model_rv.shape != want_rv.shape or not (np.max(np.abs(model_rv - want_rv)) <= tol):
                used_f5 = False
                if "F5" in prob.applicable_flags(row):
                    M5 = prob.design(row, solver="independent", flags=("F5",))
                    if model_rv.shape == want_rv.shape and np.max(np.abs(model_rv - M5 @ x_du)) <= tol:
                        used_f5 = True
                        want_rv = M5 @ x_du
                if not used_f5:
                    j = int(np.argmax(np.abs(model_rv - want_rv))) if model_rv.shape == want_rv.shape else -1
                    raise Violation("model_rv of the MCMC model is not the sampler's RV model at the same parameters",
                                    point={"P_d": P_d, "e": e, "omega": pt_["omega"], "M0": pt_["M0"], "x_data_units": x_du},
                                    prior_units={k: str(v) for k, v in units_prior.items()}, data_unit=du,
                                    t=prob.t[j], model_rv=model_rv[j] if j >= 0 else None, expected=want_rv[j] if j >= 0 else None)
                f5 = True
            # ---- Gaussian data term and declared prior densities
            var = prob.err ** 2 + s_du ** 2
            gauss = float(np.sum(-0.5 * (np.log(2 * np.pi * var) + (prob.y - want_rv) ** 2 / var)))
            gtol = 1e-7 * (abs(gauss) + prob.n) + float(np.sum(np.abs(prob.y - want_rv) / var)) * tol
            if not (abs(float(lnlike) - gauss) <= gtol):
                raise Violation("the ln_likelihood diagnostic is not ln N(y | model, sigma^2 + s^2)", got=float(lnlike),
                                want=gauss, s_data_units=s_du, tol=gtol)
            if not (abs(float(lnprior) - (float(logp_det) - float(lnlike))) <= 1e-9 * (abs(float(logp_det)) + abs(float(lnlike)) + 1)):
                raise Violation("ln_prior diagnostic is not logp - ln_likelihood")
            dens = 0.0
            if pr["P"]["kind"] == "uniformlog":
                dens += -math.log(P_pu)
            if pr.get("e_fixed") is None:
                dens += float(ss.beta.logpdf(e, 0.867, 3.03))
            if sj["kind"] == "lognormal":
                dens += float(ss.lognorm.logpdf(s_pu, sj["sigma"], scale=math.exp(sj["mu"])))
            K = pr["K"]
            if K["kind"] == "fcm":
                P0_pu = float(og.conv(K["P0"], K["P0_unit"], Ppu))
                maxK = float(og.conv(500.0, "km/s", K["sigma_K0_unit"]))
                sig = min(max(K["sigma_K0"] * (P_pu / P0_pu) ** (-1.0 / 3) / math.sqrt(1 - e * e), 0.0), maxK)
                dens += float(ss.norm.logpdf(x_pu["K"], K.get("mu", 0.0), sig))
            else:
                dens += float(ss.norm.logpdf(x_pu["K"], K["mu"], K["sigma"]))
            for i, v in enumerate(pr["v"]):
                dens += float(ss.norm.logpdf(x_pu["v%d" % i], v["mu"], v["sigma"]))
            for i, o in enumerate(pr["offsets"]):
                dens += float(ss.norm.logpdf(x_pu["dv0_%d" % (i + 1)], o["mu"], o["sigma"]))
            consts.append((float(logp_nj) - dens - gauss, abs(float(logp_nj)) + abs(dens) + abs(gauss) + 1, gtol))
        c = np.array([x[0] for x in consts])
        if not np.all(np.isfinite(c)):
            j = int(np.where(~np.isfinite(c))[0][0])
            raise Violation("log-density of the MCMC model is not finite at a point of the prior's (closed) support",
                            point=spec["points"][j], P_range=[a_pu, b_pu], P_unit=Ppu, value=float(c[j]))
        spread = float(c.max() - c.min())
        allowed = 1e-6 * max(x[1] for x in consts) + 2 * max(x[2] for x in consts)
        if not (spread <= allowed):
            j = int(np.argmax(np.abs(c - np.median(c))))
            raise Violation("log-density of the MCMC model is not ln prior(declared) + ln N(y | model, sigma^2+s^2) + const",
                            spread=spread, allowed=allowed, worst_point=spec["points"][j], constant_there=c[j], median_constant=float(np.median(c)))
        if f5:
            ctx.known("F5")
        nondef = any(str(units_prior[nm]) != str(og.unit(du)) for nm in ("K", "v0")) or pr["P"]["unit"] != "d" \
            or prob.n_offsets > 0 or prob.poly_trend >= 2 or pr["s"]["kind"] == "lognormal"
        ctx.note_case(spec, nondef, ["K:" + pr["K"]["kind"], "P:" + pr["P"]["kind"], "Punit:" + pr["P"]["unit"],
                                     "s:" + pr["s"]["kind"], "poly=%d" % prob.poly_trend, "noff=%d" % prob.n_offsets,
                                     "init:n=%s" % ("1" if n_init == 1 else ">1"), "data:" + spec["data_kind"],
                                     "e:" + ("sampled" if pr.get("e_fixed") is None else "fixed at %g" % pr["e_fixed"]),
                                     "t_ref:%s" % (spec.get("t_ref_scale", "tcb") if spec.get("t_ref") else "default"),
                                     "prior K unit %s data unit" % ("==" if str(units_prior["K"]) == str(og.unit(du)) else "!=")])

    return body


def run(ctx):
    ctx.search("models", cases(npoints=24 if ctx.quick else 96), body_factory(ctx), quick=90, thorough=2000, shrink=False)
