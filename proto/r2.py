# recon: C18 validation
import warnings; warnings.filterwarnings("ignore")
import numpy as np, astropy.units as u
import pymc as pm, pytensor.tensor as pt
import thejoker as tj, thejoker.units as xu
from astropy.time import Time
def base(model, poly=1, noff=0, skip=(), nounit=(), badunit=(), nonnormal=None, nn_kind='uniform'):
    pars = {}
    def mk(name, dist, unit):
        if name in skip: return
        if name == nonnormal:
            dist = {'uniform': lambda n: pm.Uniform(n, -1, 1), 'student': lambda n: pm.StudentT(n, nu=3, mu=0, sigma=1),
                    'halfnormal': lambda n: pm.HalfNormal(n, 1.), 'lognormal': lambda n: pm.Lognormal(n, 0, 1.), 'trunc': lambda n: pm.TruncatedNormal(n, mu=0, sigma=1, lower=-2, upper=2),
                    'det': lambda n: pm.Deterministic(n, pt.constant(1.0)), 'mvn': lambda n: pm.MvNormal(n, mu=np.zeros(1), cov=np.eye(1)), 'const': lambda n: pt.constant(1.0, name=n)}[nn_kind]
        v = dist(name)
        if name in badunit: unit = u.kg
        if name not in nounit: v = xu.with_unit(v, unit)
        pars[name] = v
    with model:
        mk('P', lambda n: pm.Uniform(n, 2, 100), u.day)
        mk('e', lambda n: pm.Beta(n, 1, 3), u.one)
        mk('omega', lambda n: pm.Uniform(n, 0, 6.28), u.rad)
        mk('M0', lambda n: pm.Uniform(n, 0, 6.28), u.rad)
        mk('s', lambda n: pm.Lognormal(n, 0, 1), u.km/u.s)
        mk('K', lambda n: pm.Normal(n, 0, 10), u.km/u.s)
        for i in range(poly): mk(f'v{i}', lambda n: pm.Normal(n, 0, 10), u.km/u.s/u.day**i)
        offs = []
        for i in range(noff):
            mk(f'dv0_{i+1}', lambda n: pm.Normal(n, 0, 10), u.km/u.s)
            if f'dv0_{i+1}' in pars: offs.append(pars.pop(f'dv0_{i+1}'))
    return pars, offs
def tryit(desc, **kw):
    poly = kw.get('poly',1); noff = kw.get('noff',0)
    try:
        model = pm.Model()
        pars, offs = base(model, **kw)
        p = tj.JokerPrior(pars=pars, poly_trend=poly, v0_offsets=offs, model=model)
        print("ACCEPT", desc, p.par_names)
    except Exception as ex:
        print("raise ", desc, type(ex).__name__, str(ex)[:70])
tryit("valid")
tryit("valid poly3 off2", poly=3, noff=2)
for nm in ['P','e','omega','M0','s','K','v0']: tryit(f"skip {nm}", skip=(nm,))
tryit("skip v1 poly2", poly=2, skip=('v1',))
for nm in ['P','e','K','v0']: tryit(f"nounit {nm}", nounit=(nm,))
for nm in ['P','e','omega','s','K','v0']: tryit(f"badunit {nm}", badunit=(nm,))
tryit("badunit v1", poly=2, badunit=('v1',)); tryit("badunit dv0_1", noff=1, badunit=('dv0_1',)); tryit("nounit dv0_1", noff=1, nounit=('dv0_1',))
for kind in ['uniform','student','halfnormal','lognormal','trunc','det','mvn','const']:
    for nm in ['K','v0']:
        tryit(f"nonnormal {kind} {nm}", nonnormal=nm, nn_kind=kind)
    tryit(f"nonnormal {kind} dv0_1", noff=1, nonnormal='dv0_1', nn_kind=kind)
    tryit(f"nonnormal {kind} v1", poly=2, nonnormal='v1', nn_kind=kind)
# v1 with wrong unit km/s (not per day)
model = pm.Model(); pars, offs = base(model, poly=2)
with model: pars['v1'] = xu.with_unit(pm.Normal('v1b', 0, 1), u.km/u.s)
try: tj.JokerPrior(pars=pars, poly_trend=2, model=model); print("ACCEPT v1 in km/s")
except Exception as ex: print("raise v1 in km/s", type(ex).__name__)
print("--- data/prior mismatches")
def mkdata(n, seed):
    r = np.random.default_rng(seed); t = 56000 + np.sort(r.uniform(0, 300, n))
    return tj.RVData(t=t, rv=r.normal(0,5,n)*u.km/u.s, rv_err=r.uniform(0.1,0.5,n)*u.km/u.s)
smp = tj.JokerSamples(); smp['P']=[10.]*u.day; smp['e']=[0.1]; smp['omega']=[1.]*u.rad; smp['M0']=[1.]*u.rad; smp['s']=[0.]*u.km/u.s
for noff in [0,1,2]:
    model = pm.Model(); pars, offs = base(model, noff=noff)
    prior = tj.JokerPrior(pars=pars, v0_offsets=offs, model=model)
    s2 = tj.JokerSamples(smp.tbl, n_offsets=noff)
    d1 = mkdata(5,1); d2 = mkdata(4,2); d3 = mkdata(3,3)
    cov = tj.RVData(d2._t_bmjd, d2.rv, np.diag(d2.rv_err.value**2)*(u.km/u.s)**2)
    for desc, data in [("single", d1), ("list1", [d1]), ("list2", [d1,d2]), ("list3",[d1,d2,d3]), ("dict2", {'a':d1,'b':d2}), ("tuple2",(d1,d2)), ("list w/ nonRVData", [d1, "x"]), ("int", 3), ("None", None), ("list2 cov", [d1, cov]), ("single cov", cov), ("list w/ dup obj", [d1, d1])]:
        try:
            ll = tj.TheJoker(prior).marginal_ln_likelihood(data, s2, in_memory=True); print(f"noff={noff} ACCEPT {desc}", ll)
        except Exception as ex: print(f"noff={noff} raise  {desc}", type(ex).__name__, str(ex)[:60])
