from ref import *
rng = np.random.default_rng(5)
def mkdata(n, seed, shift=0.):
    r = np.random.default_rng(seed); t = 56000 + shift + np.sort(r.uniform(0, 300, n))
    return tj.RVData(t=t, rv=r.normal(0,5,n)*u.km/u.s, rv_err=r.uniform(0.1,0.5,n)*u.km/u.s)
for n_off in [1,2]:
    with pm.Model():
        K = xu.with_unit(pm.Normal('K', 3., 7.), u.km/u.s)
        offs = [xu.with_unit(pm.Normal(f'dv0_{i+1}', 0.5*(i+1), 2.+i), u.km/u.s) for i in range(n_off)]
        prior = tj.JokerPrior.default(P_min=2*u.day, P_max=500*u.day, sigma_v=100*u.km/u.s, v0_offsets=offs, pars={'K':K})
    datas = [mkdata(5+i, i, 1000.*i) for i in range(n_off+1)]
    N=4
    smp = tj.JokerSamples(n_offsets=n_off)
    smp['P'] = rng.uniform(2, 500, N)*u.day; smp['e'] = rng.uniform(0,0.9,N); smp['omega']=rng.uniform(0,6.28,N)*u.rad
    smp['M0']=rng.uniform(0,6.28,N)*u.rad; smp['s']=np.zeros(N)*u.km/u.s
    ll = tj.TheJoker(prior).marginal_ln_likelihood(datas, smp, in_memory=True)
    t = np.concatenate([d._t_bmjd for d in datas]); y = np.concatenate([d.rv.value for d in datas]); er = np.concatenate([d.rv_err.value for d in datas])
    ids = np.concatenate([[i]*len(d) for i,d in enumerate(datas)]); t0=t.min()
    for i in range(N):
        P,e,om,M0 = (smp[k][i].value for k in ['P','e','omega','M0'])
        M = design(t, t0, ids, 1, P,e,om,M0)
        # characterised defect: Lambda[0]=0, mu[0]=0; slot n_off gets (mu_K, sig_K^2) then v0 overwrites slot1
        Lam = np.array([0., 100.**2] + [(2.+k)**2 for k in range(n_off)]); mu = np.array([0., 0.] + [0.5*(k+1) for k in range(n_off)])
        if n_off >= 2:
            Lam[n_off] = 49.; mu[n_off] = 3.
        print(n_off, ll[i], ln_marg(y, er**2, M, mu, Lam))
