"""Closed-form Gaussian oracle, written from the property statements (C01, C03, C04, C07).

Everything is computed from the *specification* of a problem (plain numbers + unit names), never
from thejoker objects:

    design matrix  M = [ z(t; P,e,omega,M0,t_ref), 1, 1[survey==k] (k=2..), (t-t_ref)^i (i=1..) ]
    prior          x ~ N(mu, diag(Lambda)),   Var(K) = min(sigma_K0^2 (P/P0)^(-2/3)/(1-e^2), max_K^2)
    marginal       ln N(y | M mu, C + s^2 I + M Lambda M^T)
    conditional    A = (Lambda^-1 + M^T C_s^-1 M)^-1,   a = A (Lambda^-1 mu + M^T C_s^-1 y)

all in the data's velocity unit (the unit of the first survey) and days.
"""
import math

import astropy.units as u
import numpy as np

TWO_PI = 2 * math.pi

UNITS = {
    "km/s": u.km / u.s, "m/s": u.m / u.s, "cm/s": u.cm / u.s, "pc/Myr": u.pc / u.Myr, "AU/yr": u.au / u.yr,
    "d": u.day, "yr": u.yr, "h": u.hour, "min": u.min,
    "rad": u.rad, "deg": u.deg, "": u.one,
}
VEL_UNITS = ["km/s", "m/s", "cm/s", "pc/Myr", "AU/yr"]
TIME_UNITS = ["d", "yr", "h", "min"]
ANG_UNITS = ["rad", "deg"]


def unit(name):
    """'km/s', 'km/s/d^2', ... -> astropy unit (velocity / time^i for trend terms)."""
    if name in UNITS:
        return UNITS[name]
    # forms like "m/s/yr" or "km/s/d^2"
    for v in VEL_UNITS:
        if name.startswith(v + "/"):
            rest = name[len(v) + 1:]
            if "^" in rest:
                tn, p = rest.split("^")
                return UNITS[v] / UNITS[tn] ** int(p)
            return UNITS[v] / UNITS[rest]
    raise KeyError(name)


def conv(value, from_unit, to_unit):
    return (np.asarray(value, dtype=float) * unit(from_unit)).to_value(
        to_unit if not isinstance(to_unit, str) else unit(to_unit))


# ----------------------------------------------------------------------------- Kepler
def kepler_z_independent(t, P, e, omega, M0, t0):
    """cos(omega+f) + e cos(omega) with an independent, fully converged Kepler solve."""
    M = TWO_PI * (np.asarray(t, dtype=np.longdouble) - t0) / P - M0
    M = np.asarray(M, dtype=np.longdouble)
    Mr = np.mod(M, TWO_PI)
    Mr = np.where(Mr > math.pi, Mr - TWO_PI, Mr)  # (-pi, pi]
    # bisection bracket + Newton (safe for all e<1)
    lo = Mr - e - 1e-12
    hi = Mr + e + 1e-12
    E = Mr + e * np.sin(Mr)
    for _ in range(200):
        f = E - e * np.sin(E) - Mr
        hi = np.where(f > 0, np.minimum(hi, E), hi)
        lo = np.where(f <= 0, np.maximum(lo, E), lo)
        dE = f / (1 - e * np.cos(E))
        En = E - dE
        bad = (En <= lo) | (En >= hi) | ~np.isfinite(En)
        En = np.where(bad, 0.5 * (lo + hi), En)
        if np.all(np.abs(En - E) <= 4e-19 * (1 + np.abs(En))):
            E = En
            break
        E = En
    ftrue = 2 * np.arctan2(np.sqrt(1 + e) * np.sin(E / 2), np.sqrt(1 - e) * np.cos(E / 2))
    return np.asarray(np.cos(omega + ftrue) + e * np.cos(omega), dtype=float)


def kepler_z_twobody(t, P, e, omega, M0, t0, tol=1e-10, maxiter=128):
    from twobody.wrap import cy_rv_from_elements

    return cy_rv_from_elements(np.ascontiguousarray(t, dtype=np.float64), float(P), 1.0, float(e), float(omega),
                               float(M0), float(t0), tol, maxiter)


# ----------------------------------------------------------------------------- problem -> arrays
def effective_times(t, time_input):
    """BMJD values an RVData built from these inputs holds (astropy round trip for Time inputs)."""
    t = np.array(t, dtype=float)
    if time_input in ("tcb", "utc"):
        from astropy.time import Time

        tt = Time(t, format="mjd", scale="tcb")
        if time_input == "utc":
            tt = tt.utc
        return tt.tcb.mjd
    return t


class Problem:
    """Numeric view of a problem spec in (data unit, day, rad)."""

    def __init__(self, spec):
        self.spec = spec
        sv = spec["surveys"]
        self.data_unit = sv[0]["unit"]
        self.keys = spec.get("keys") or list(range(len(sv)))
        t, y, err, ids = [], [], [], []
        for k, s in enumerate(sv):
            tk = np.asarray(effective_times(s["t"], spec.get("time_input", "float")), dtype=float)
            # each source RVData sorts its own rows first (same argsort call as the code, so that rows with
            # tied epochs end up in the same order; only defect F5 makes that order observable)
            ok = np.argsort(tk)
            t += list(tk[ok])
            y += list(np.asarray(conv(s["rv"], s["unit"], self.data_unit))[ok])
            err += list(np.asarray(conv(s["err"], s.get("err_unit", s["unit"]), self.data_unit))[ok])
            ids += [k] * len(s["t"])
        t = np.array(t, dtype=float)
        # same call as RVData.__init__ makes on the concatenated times (default kind), so that rows with
        # tied epochs come out in the same order as in the merged data set
        order = np.argsort(t)
        self.ids_concat = np.array(ids)  # labels in concatenation order (defect F5 applies these to sorted rows)
        self.t = t[order]
        self.y = np.array(y)[order]
        self.err = np.array(err)[order]
        self.ids = np.array(ids)[order]
        # reference survey: first source for list input; smallest key for dict input
        if spec.get("data_kind") == "dict":
            ranks = np.argsort(np.argsort(self.keys_sortable()))
            self.col_of_survey = ranks  # survey k -> rank; rank 0 is the reference
        else:
            self.col_of_survey = np.arange(len(sv))
        self.n = len(self.t)
        self.n_offsets = len(sv) - 1
        self.t_ref = spec.get("t_ref")
        if spec.get("t_ref_false") and len(sv) == 1:
            self.t_ref = 0.0   # t_ref=False: phases and trend are referred to BMJD 0
        elif self.t_ref is None:
            self.t_ref = float(self.t.min())
        pr = spec["prior"]
        self.poly_trend = pr["poly_trend"]
        self.n_linear = 1 + self.poly_trend + self.n_offsets

    def keys_sortable(self):
        return np.array(self.keys)

    def trend_columns(self, t=None, ids=None, flags=()):
        t = self.t if t is None else np.asarray(t, dtype=float)
        cols = [np.ones_like(t)]
        if ids is None:
            ids = self.ids_concat if "F5" in flags else self.ids
        for r in range(1, self.n_offsets + 1):
            k = int(np.where(self.col_of_survey == r)[0][0])
            cols.append((np.asarray(ids) == k).astype(float))
        dt = t - self.t_ref
        for i in range(1, self.poly_trend):
            cols.append(dt ** i)
        return cols

    def design(self, row, solver="twobody", t=None, ids=None, flags=()):
        t_ = self.t if t is None else np.asarray(t, dtype=float)
        if solver == "twobody":
            z = kepler_z_twobody(t_, row["P"], row["e"], row["omega"], row["M0"], self.t_ref)
        else:
            z = kepler_z_independent(t_, row["P"], row["e"], row["omega"], row["M0"], self.t_ref)
        return np.stack([z] + self.trend_columns(t, ids, flags), axis=1)

    # -- prior on the linear parameters, in design-matrix order (K, v0, offsets, v1, ...)
    def linear_prior(self, row, flags=()):
        pr = self.spec["prior"]
        du = self.data_unit
        mu = np.zeros(self.n_linear)
        Lam = np.zeros(self.n_linear)
        K = pr["K"]
        if K["kind"] == "fcm":
            sK0 = conv(K["sigma_K0"], K["sigma_K0_unit"], du)
            if "F4" in flags:
                # defect F4: P0 expressed in the period prior's unit but compared with P in days
                P0 = conv(K["P0"], K["P0_unit"], pr["P"]["unit"])
            else:
                P0 = conv(K["P0"], K["P0_unit"], "d")
            maxK = conv(K["max_K"], K["max_K_unit"], du) if K.get("max_K") is not None else conv(500.0, "km/s", du)
            var = sK0 ** 2 / (1 - row["e"] ** 2) * (row["P"] / P0) ** (-2.0 / 3.0)
            if "F3" not in flags:
                var = min(var, maxK ** 2)
            Lam[0] = var
            mu[0] = conv(K.get("mu", 0.0), K["sigma_K0_unit"], du)
            fcm = True
        else:
            Lam[0] = conv(K["sigma"], K["unit"], du) ** 2
            mu[0] = conv(K["mu"], K["unit"], du)
            fcm = False
        v = pr["v"]
        Lam[1] = conv(v[0]["sigma"], v[0]["unit"], du) ** 2
        mu[1] = conv(v[0]["mu"], v[0]["unit"], du)
        for r, o in enumerate(pr.get("offsets", [])):
            Lam[2 + r] = conv(o["sigma"], o["unit"], du) ** 2
            mu[2 + r] = conv(o["mu"], o["unit"], du)
        for i in range(1, self.poly_trend):
            tgt = unit(du) / u.day ** i
            j = 1 + self.n_offsets + i
            Lam[j] = conv(v[i]["sigma"], v[i]["unit"], tgt) ** 2
            mu[j] = conv(v[i]["mu"], v[i]["unit"], tgt)
        if "F2" in flags and not fcm and self.n_offsets >= 1:
            # defect F2: custom Normal K prior with offsets: K's (mu, var) is written to slot n_offsets,
            # slot 0 keeps Lambda=0, mu=0
            muK, LK = mu[0], Lam[0]
            mu[0], Lam[0] = 0.0, 0.0
            if self.n_offsets >= 2:
                mu[self.n_offsets], Lam[self.n_offsets] = muK, LK
            # (for n_offsets == 1 slot 1 is rewritten by v0 afterwards)
        return mu, Lam

    def svar(self, row, flags=()):
        s = 0.0 if "F1" in flags else row["s"]
        return self.err ** 2 + s ** 2

    def applicable_flags(self, row, posterior=False):
        pr = self.spec["prior"]
        fl = []
        if row["s"] != 0:
            fl.append("F1")
        if pr["K"]["kind"] != "fcm" and self.n_offsets >= 1:
            fl.append("F2")
        if pr["K"]["kind"] == "fcm" and pr["P"]["unit"] != "d":
            fl.append("F4")
        if posterior and pr["K"]["kind"] == "fcm":
            fl.append("F3")
        if self.n_offsets >= 1 and not np.array_equal(self.ids, self.ids_concat):
            fl.append("F5")
        return fl


# ----------------------------------------------------------------------------- linear algebra
def _chol_ld(B):
    B = np.asarray(B, dtype=np.longdouble)
    n = B.shape[0]
    L = np.zeros_like(B)
    for j in range(n):
        d = B[j, j] - np.dot(L[j, :j], L[j, :j])
        if not d > 0:
            raise np.linalg.LinAlgError("not positive definite (longdouble)")
        L[j, j] = np.sqrt(d)
        if j + 1 < n:
            L[j + 1:, j] = (B[j + 1:, j] - L[j + 1:, :j] @ L[j, :j]) / L[j, j]
    return L


def _fwd_ld(L, r):
    n = len(r)
    x = np.zeros(n, dtype=np.longdouble)
    for i in range(n):
        x[i] = (r[i] - np.dot(L[i, :i], x[:i])) / L[i, i]
    return x


def ln_marginal(y, var, M, mu, Lam, longdouble=False):
    """ln N(y | M mu, diag(var) + M diag(Lam) M^T); returns (ll, chi2, logdet)."""
    n = len(y)
    if longdouble:
        M_ = np.asarray(M, dtype=np.longdouble)
        B = np.diag(np.asarray(var, dtype=np.longdouble)) + (M_ * np.asarray(Lam, dtype=np.longdouble)) @ M_.T
        r = np.asarray(y, dtype=np.longdouble) - M_ @ np.asarray(mu, dtype=np.longdouble)
        L = _chol_ld(B)
        a = _fwd_ld(L, r)
        chi2 = np.dot(a, a)
        logdet = 2 * np.sum(np.log(np.diag(L))) + n * np.log(np.longdouble(TWO_PI))
        return float(-0.5 * (chi2 + logdet)), float(chi2), float(logdet)
    B = np.diag(var) + (M * Lam) @ M.T
    r = y - M @ mu
    L = np.linalg.cholesky(B)
    import scipy.linalg as sl

    a = sl.solve_triangular(L, r, lower=True)
    chi2 = float(a @ a)
    logdet = float(2 * np.log(np.diag(L)).sum() + n * math.log(TWO_PI))
    return -0.5 * (chi2 + logdet), chi2, logdet


def conditioning(var, M, Lam):
    """kappa = max_i Lambda_i (M^T C^-1 M)_ii  (prior variance over data variance per parameter)."""
    d = ((M ** 2) / var[:, None]).sum(axis=0)
    return float(np.max(Lam * d)) if len(Lam) else 0.0


def posterior(y, var, M, mu, Lam):
    """(a, A) of the conditional Gaussian; parameters with Lambda == 0 are pinned to mu."""
    M = np.asarray(M, dtype=np.longdouble)
    var = np.asarray(var, dtype=np.longdouble)
    mu = np.asarray(mu, dtype=np.longdouble)
    Lam = np.asarray(Lam, dtype=np.longdouble)
    free = Lam > 0
    nl = len(mu)
    a = np.array(mu, dtype=np.longdouble)
    A = np.zeros((nl, nl), dtype=np.longdouble)
    if free.any():
        Mf = M[:, free]
        r = np.asarray(y, dtype=np.longdouble) - M[:, ~free] @ mu[~free]
        Ainv = np.diag(1 / Lam[free]) + (Mf.T / var) @ Mf
        rhs = mu[free] / Lam[free] + (Mf.T / var) @ r
        L = _chol_ld(Ainv)
        k = L.shape[0]
        Linv = np.zeros_like(L)
        for c in range(k):
            ec = np.zeros(k, dtype=np.longdouble)
            ec[c] = 1
            Linv[:, c] = _fwd_ld(L, ec)
        Af = Linv.T @ Linv
        af = Af @ rhs
        idx = np.where(free)[0]
        a[idx] = af
        A[np.ix_(idx, idx)] = Af
    return np.asarray(a, dtype=float), np.asarray(A, dtype=float)


EPS = np.finfo(float).eps


TOL_C = 32.0
TOL_DEV = 2048.0  # margin on the measured round-off of the emulated kernel route


def _scaled_cond(S):
    d = np.sqrt(np.abs(np.diag(S)))
    d = np.where(d > 0, d, 1.0)
    Sn = S / np.outer(d, d)
    try:
        c = np.linalg.cond(Sn)
    except np.linalg.LinAlgError:
        c = np.inf
    return float(c) if np.isfinite(c) else 1e300


def _kernel_route(y, var, M, mu, Lam, rng=None):
    """float64 emulation of the kernel's own arithmetic, written from the algorithm it documents:
    Ainv accumulated epoch by epoch -> A by LAPACK dgetrf/dgetri -> Binv by the Woodbury identity, subtracting one
    (i, j) term at a time -> chi^2 as a double sum; log-determinant from dgetrf of B.  It is NOT the oracle (that is
    the exact Cholesky form); |emulation - exact| measures how much round-off this route suffers for the given
    input, i.e. what "numerical round-off" means here.  With rng the inputs are perturbed by ulp-sized noise."""
    from scipy.linalg import lapack

    n, nl = M.shape
    ivar = 1.0 / var
    if rng is not None:
        ivar = ivar * (1 + EPS * rng.uniform(-1, 1, ivar.shape))
    MT = np.ascontiguousarray(M.T)
    with np.errstate(divide="ignore"):
        Ainv = np.diag(1.0 / Lam)
    for k in range(n):
        Ainv = Ainv + np.outer(MT[:, k], MT[:, k] * ivar[k])
    if rng is not None:
        Ainv = Ainv * (1 + EPS * rng.uniform(-1, 1, Ainv.shape))
    lu, piv, info = lapack.dgetrf(Ainv)
    if info != 0:
        return float("inf")
    A, info = lapack.dgetri(lu, piv)
    if info != 0:
        return float("inf")
    b = M @ mu
    Binv = np.diag(ivar)
    for i in range(nl):
        left = ivar * MT[i]
        for j in range(nl):
            Binv = Binv - np.outer(left * A[i, j], MT[j] * ivar)
    r = b - y
    chi2 = float(np.sum((r[None, :] * Binv) * r[:, None]))
    B = np.diag(var) + (M * Lam) @ M.T
    luB, _, info = lapack.dgetrf(B)
    if info != 0:
        return float("inf")
    logdet = float(np.sum(np.log(TWO_PI * np.abs(np.diag(luB)))))
    return -0.5 * (chi2 + logdet)


def tolerance(y, var, M, mu, Lam, chi2, logdet, d_ld, ll_exact=None):
    """Round-off allowance for the kernel's route (LU inverse of the precision matrix, Woodbury identity, LU
    log-det).  Two ingredients:
      * measured: the float64 emulation of that route (plain and with ulp-sized input perturbations) is compared
        with the exact value; the largest deviation, times TOL_C, is what we allow the kernel;
      * analytic floor: eps (n cond_s(B) + r^T C^-1 r) for the log-determinant and the uncancelled chi^2 terms.
    The largest observed |delta|/tol of accepted values is reported in the evidence."""
    n = len(y)
    r = y - M @ mu
    free = Lam > 0
    chi2_C = float(np.sum(r * r / var))
    condA = 1.0
    if free.any():
        Mf = M[:, free]
        condA = _scaled_cond(np.diag(1 / Lam[free]) + (Mf.T / var) @ Mf)
    B = np.diag(var) + (M * Lam) @ M.T
    condB = _scaled_cond(B)
    model = EPS * (n * condB + chi2_C)
    ref = ll_exact if ll_exact is not None else -0.5 * (chi2 + logdet)
    dev = 0.0
    rng = np.random.default_rng(20240917)
    try:
        with np.errstate(all="ignore"):
            for k in range(3):
                v = _kernel_route(y, var, M, mu, Lam, rng if k else None)
                if np.isfinite(v):
                    dev = max(dev, abs(v - ref))
                else:
                    dev = max(dev, 1e300)
    except Exception:
        dev = 1e300
    tol = 1e-9 + 1e-10 * (abs(chi2) + abs(logdet) + n) + TOL_C * model + TOL_DEV * dev + 8 * d_ld
    return tol, {"condA": condA, "condB": condB, "chi2_C": chi2_C, "route_dev": dev}


def tol_of(ev):
    """Full tolerance of an evaluation (computed on demand, cached)."""
    if "tol" not in ev:
        ev["tol"], ev["tol_parts"] = tolerance(ev["y"], ev["var"], ev["M"], ev["mu"], ev["Lam"], ev["chi2"],
                                               ev["logdet"], abs(ev["ll64"] - ev["ll"]), ll_exact=ev["ll"])
    return ev["tol"]


def ratio_of(ev, value):
    """|value - closed form| / tolerance, computing the expensive part of the tolerance only when needed."""
    if ev.get("singular"):
        return 0.0  # no reference value exists: not judged
    d = abs(value - ev["ll"])
    if d <= ev["tol_floor"]:
        return d / ev["tol_floor"]
    return d / tol_of(ev)


def evaluate(prob, row, flags=(), solver="twobody", want_posterior=False, full_tol=False):
    """Closed-form values for one nonlinear row under a set of defect flags."""
    M = prob.design(row, solver=solver, flags=flags)
    mu, Lam = prob.linear_prior(row, flags)
    var = prob.svar(row, flags)
    kappa = conditioning(var, M, Lam)
    try:
        ll_ld, chi2_ld, logdet_ld = ln_marginal(prob.y, var, M, mu, Lam, longdouble=True)
    except np.linalg.LinAlgError:
        ll_ld = None
    try:
        ll, chi2, logdet = ln_marginal(prob.y, var, M, mu, Lam)
    except np.linalg.LinAlgError:
        ll = None
    if ll is None or ll_ld is None or not np.isfinite(ll) or not np.isfinite(ll_ld):
        # numerically singular configuration (prior variance / data variance beyond what float64 - or even
        # longdouble - can factor): no reference value; every comparison with it is "not judged"
        return {"ll": float("nan"), "ll64": float("nan"), "chi2": float("nan"), "logdet": float("nan"), "kappa": kappa,
                "mu": mu, "Lam": Lam, "M": M, "var": var, "y": prob.y, "n": prob.n, "tol_floor": float("inf"),
                "tol": float("inf"), "tol_parts": {"condA": float("inf"), "condB": float("inf"), "chi2_C": float("nan"),
                                                    "route_dev": float("inf")}, "singular": True,
                "a": np.full(len(mu), np.nan), "A": np.full((len(mu), len(mu)), np.nan)}
    out = {"ll": ll_ld, "ll64": ll, "chi2": chi2, "logdet": logdet, "kappa": kappa, "mu": mu, "Lam": Lam,
           "M": M, "var": var, "y": prob.y, "n": prob.n,
           # always a lower bound of the full tolerance: a value within tol_floor needs no further work
           "tol_floor": 1e-9 + 1e-10 * (abs(chi2) + abs(logdet) + prob.n) + 8 * abs(ll - ll_ld)}
    if full_tol:
        tol_of(out)
    if want_posterior:
        try:
            out["a"], out["A"] = posterior(prob.y, var, M, mu, Lam)
        except np.linalg.LinAlgError:
            # the precision matrix cannot be factored even in extended precision (prior variances dozens of orders of
            # magnitude apart): no reference for the conditional posterior, comparisons with it are "not judged"
            out["singular"] = True
            out["a"] = np.full(len(mu), np.nan)
            out["A"] = np.full((len(mu), len(mu)), np.nan)
    return out


def corr_cond(A):
    """condition number of the correlation matrix belonging to a covariance matrix"""
    A = np.asarray(A, dtype=float)
    d = np.sqrt(np.abs(np.diag(A)))
    d = np.where(d > 0, d, 1.0)
    try:
        return float(np.linalg.cond(A / np.outer(d, d)))
    except np.linalg.LinAlgError:
        return float("inf")


def posterior_ratio(ev, a_code, A_code, cond_floor=0.0):
    """max over entries of |code - closed form| / tolerance for the conditional mean and covariance.
    cond_floor: a lower bound for the condition number entering the tolerance (used when the reference itself is a
    computed covariance whose conditioning differs from the closed form's)."""
    if ev.get("singular"):
        return 0.0
    a, A = ev["a"], ev["A"]
    tol_of(ev)
    condA = ev["tol_parts"]["condA"]
    dA = np.sqrt(np.abs(np.diag(A)))
    # floor 1e-9 (in units of the posterior standard deviations): LAPACK inverts the badly scaled precision
    # matrix with errors that are tiny norm-wise but up to ~1e-11 relative to sqrt(A_ii A_jj)
    # badly scaled posteriors (standard deviations of the linear parameters many orders of magnitude apart, e.g. a t^4 trend
    # coefficient next to K): the kernel's LU-based inverse is not invariant under diagonal scaling, its small cross terms
    # carry errors of order eps * (largest / smallest standard deviation) relative to sqrt(A_ii A_jj)
    pos = dA[dA > 0]
    spread = float(pos.max() / pos.min()) if pos.size else 1.0
    c = TOL_C * EPS * max(condA, cond_floor, spread, 1.0) + 1e-9
    scaleA = np.outer(dA, dA)
    tolA = c * scaleA + 1e-300
    free = ev["Lam"] > 0
    mu, Lam = ev["mu"], ev["Lam"]
    # size of the right-hand side in the A-norm: a^T A^-1 a = rhs^T A rhs
    if free.any():
        Af = A[np.ix_(free, free)]
        try:
            q = float(a[free] @ np.linalg.solve(Af, a[free]))
        except np.linalg.LinAlgError:
            q = float(np.sum(a[free] ** 2 / np.maximum(np.diag(Af), 1e-300)))
    else:
        q = 0.0
    tola = c * (dA * math.sqrt(abs(q)) + np.abs(a)) + 1e-300
    a_code = np.asarray(a_code, dtype=float)
    A_code = np.asarray(A_code, dtype=float)
    if a_code.shape != a.shape or A_code.shape != A.shape:
        return float("inf")
    if not (np.all(np.isfinite(a_code)) and np.all(np.isfinite(A_code))):
        return float("inf")
    ra = np.max(np.abs(a_code - a) / tola)
    rA = np.max(np.abs(A_code - A) / tolA)
    return float(max(ra, rA))


def subsets(flags):
    flags = list(flags)
    out = []
    for m in range(1 << len(flags)):
        out.append(tuple(f for i, f in enumerate(flags) if m >> i & 1))
    out.sort(key=len)
    return out
