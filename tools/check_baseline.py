#!/usr/bin/env python3
"""Run the pinned suite in /repo (or given dir) and compare with BASELINE.json's stable_pass list."""
import json, subprocess, sys, xml.etree.ElementTree as ET, os, tempfile
repo = sys.argv[1] if len(sys.argv) > 1 else "/repo"
out = tempfile.mktemp(suffix=".xml", dir="/tmp")
subprocess.run(["/venv/bin/python", "-m", "pytest", "-ra", "-q", "-p", "no:cacheprovider", "--timeout=900",
                "--continue-on-collection-errors", "--junitxml=" + out], cwd=repo, capture_output=True,
               env=dict(os.environ, PYTHONPATH=repo))
base = json.load(open("/root/.vp/BASELINE.json"))
passed = set()
for tc in ET.parse(out).getroot().iter("testcase"):
    if not any(ch.tag in ("failure", "error", "skipped") for ch in tc):
        passed.add(tc.get("classname") + "::" + tc.get("name"))
os.unlink(out)
missing = [t for t in base["stable_pass"] if t not in passed]
print("stable tests passing: %d/%d" % (len(base["stable_pass"]) - len(missing), len(base["stable_pass"])))
for m in missing:
    print("  NOT PASSING:", m)
sys.exit(1 if missing else 0)
