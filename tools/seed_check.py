#!/usr/bin/env python3
"""Validate one seeded change and run our checks against it.

  tools/seed_check.py <dir with patch.diff, demo.py, meta.json> <name> [--checks C01,C05] [--tier quick]

Steps (all in a scratch worktree of /repo's HEAD, removed afterwards):
  1. demo.py on the unpatched tree must exit 0; 2. patch applies; demo.py must exit != 0;
  3. the pinned stable suite must still be 50/50 with the patch; 4. the named checks are run with VERIF_REPO=<worktree>.
Result is written to /verif/seeded/<name>/ (patch.diff, demo.py, meta.json incl. what we ran and saw)."""
import argparse, json, os, shutil, subprocess, sys, tempfile

ap = argparse.ArgumentParser()
ap.add_argument("src")
ap.add_argument("name")
ap.add_argument("--checks", default=None)
ap.add_argument("--tier", default="quick")
ap.add_argument("--no-suite", action="store_true")
a = ap.parse_args()
meta = json.load(open(os.path.join(a.src, "meta.json")))
prop = meta.get("property")
checks = (a.checks or prop).split(",")
wt = tempfile.mkdtemp(prefix="vtseed_", dir="/tmp"); os.rmdir(wt)
subprocess.run(["git", "-C", "/repo", "worktree", "add", "--detach", wt, "HEAD"], check=True, capture_output=True)
res = {"ran": []}
try:
    for f in os.listdir("/repo/thejoker/src"):
        if f.endswith((".c", ".so")):
            shutil.copy2(os.path.join("/repo/thejoker/src", f), os.path.join(wt, "thejoker/src", f))
    shutil.copy2("/repo/thejoker/_version.py", os.path.join(wt, "thejoker/_version.py"))
    env = dict(os.environ, PYTHONPATH=wt, PYTENSOR_FLAGS="linker=py")
    demo = os.path.abspath(os.path.join(a.src, "demo.py"))
    shutil.copy2(demo, os.path.join(wt, "_seed_demo.py"))
    def run_demo():
        import signal
        r = subprocess.run(["/venv/bin/python", "-W", "ignore", "_seed_demo.py"], cwd=wt, env=env, capture_output=True, text=True, timeout=1800,
                           preexec_fn=lambda: signal.signal(signal.SIGINT, signal.default_int_handler))
        return r.returncode, (r.stdout + r.stderr).strip().split("\n")[-1][:200]
    rc0, out0 = run_demo()
    res["demo_unpatched"] = {"exit": rc0, "last_line": out0}
    ap_ = subprocess.run(["git", "-C", wt, "apply", os.path.abspath(os.path.join(a.src, "patch.diff"))], capture_output=True, text=True)
    res["patch_applies"] = ap_.returncode == 0
    if ap_.returncode != 0:
        res["patch_error"] = ap_.stderr[:300]
    else:
        rc1, out1 = run_demo()
        res["demo_patched"] = {"exit": rc1, "last_line": out1}
        if not a.no_suite:
            r = subprocess.run([sys.executable, "/verif/tools/check_baseline.py", wt], capture_output=True, text=True)
            res["stable_suite_patched"] = r.stdout.strip().split("\n")[0]
            res["stable_suite_ok"] = r.returncode == 0
        for c in checks:
            e = dict(os.environ, VERIF_REPO=wt, VERIF_EVIDENCE_DIR="/tmp/vtseed_evidence")
            r = subprocess.run(["/verif/check", c, "--tier", a.tier], env=e, capture_output=True, text=True)
            lines = [l for l in (r.stdout + r.stderr).split("\n") if l.startswith("violation in")]
            res["ran"].append({"check": c, "tier": a.tier, "exit": r.returncode,
                               "verdict": "caught" if r.returncode == 1 else ("missed" if r.returncode == 0 else "harness-error"),
                               "first_violation": lines[0][:300] if lines else None})
    res["valid"] = bool(res.get("patch_applies") and rc0 == 0 and res.get("demo_patched", {}).get("exit", 0) != 0
                        and (a.no_suite or res.get("stable_suite_ok")))
finally:
    subprocess.run(["git", "-C", "/repo", "worktree", "remove", "--force", wt], capture_output=True)
    shutil.rmtree(wt, ignore_errors=True)
    subprocess.run(["git", "-C", "/repo", "worktree", "prune"], capture_output=True)
out = os.path.join("/verif/seeded", a.name)
os.makedirs(out, exist_ok=True)
shutil.copy2(os.path.join(a.src, "patch.diff"), os.path.join(out, "patch.diff"))
shutil.copy2(os.path.join(a.src, "demo.py"), os.path.join(out, "demo.py"))
meta["validation"] = res
json.dump(meta, open(os.path.join(out, "meta.json"), "w"), indent=1)
print(json.dumps(res, indent=1))
