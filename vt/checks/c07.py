"""C07 - physical results are invariant under the choice of units."""
import copy
import math
import os

import numpy as np
from hypothesis import strategies as st

from vt import gens
from vt import oracle_gauss as og
from vt.checks import c01, c03
from vt.recgen import RecordingGenerator
from vt.runner import Violation

RULE = ("One physical problem is drawn in canonical units (km/s, day, rad) together with a twin in which the unit of "
        "every slot is drawn independently from equivalent units: each survey's rv and rv_err, the period prior, "
        "sigma_K0 / P0 / max_K (or the custom K prior), every trend and offset prior, the jitter prior and each "
        "prior-sample column. Oracle (metamorphic): ll_twin - ll_base = -n ln(data-unit ratio) within the round-off "
        "model; with equal seeds the same prior samples are accepted; the (mean, cov) handed to the linear draw scale "
        "with the ratio and its square; returned columns carry the twin's data unit and are physically equal. "
        "Non-trivial: the twin differs from the base in >=2 unit slots, at least one on the prior side.")
SHARDS = {"quick": 4, "thorough": 16}
BUDGET = {"quick": 75, "thorough": 800}


def _trend_unit(draw, i):
    vel = draw(st.sampled_from(og.VEL_UNITS))
    if i == 0:
        return vel
    tim = draw(st.sampled_from(["d", "yr", "h"]))
    return "%s/%s%s" % (vel, tim, "" if i == 1 else "^%d" % i)


@st.composite
def twins(draw, thorough=False):
    base = draw(gens.problems(max_surveys=3, max_epochs=20 if thorough else 8, max_poly=3, n_rows=(4, 8), units=False))
    base["time_input"] = "float"
    twin = copy.deepcopy(base)
    slots = 0
    prior_slots = 0

    def cv(x, a, b):
        return float(og.conv(x, a, b))

    for s in twin["surveys"]:
        un = draw(st.sampled_from(og.VEL_UNITS))
        eu = draw(st.sampled_from([un, un] + og.VEL_UNITS))
        s["rv"] = [cv(x, "km/s", un) for x in s["rv"]]
        s["err"] = [cv(x, "km/s", eu) for x in s["err"]]
        s["unit"] = un
        if eu != un:
            s["err_unit"] = eu
        slots += (un != "km/s") + (eu != un)
    pr = twin["prior"]
    pu = draw(st.sampled_from(og.TIME_UNITS))
    pr["P"]["min"], pr["P"]["max"], pr["P"]["unit"] = cv(pr["P"]["min"], "d", pu), cv(pr["P"]["max"], "d", pu), pu
    prior_slots += pu != "d"
    K = pr["K"]
    if K["kind"] == "fcm":
        ku = draw(st.sampled_from(og.VEL_UNITS))
        K["sigma_K0"], K["sigma_K0_unit"] = cv(K["sigma_K0"], K["sigma_K0_unit"], ku), ku
        p0u = draw(st.sampled_from(og.TIME_UNITS))
        K["P0"], K["P0_unit"] = cv(K["P0"], K["P0_unit"], p0u), p0u
        prior_slots += (ku != "km/s") + 1
        if K.get("max_K") is not None:
            mu_ = draw(st.sampled_from(og.VEL_UNITS))
            K["max_K"], K["max_K_unit"] = cv(K["max_K"], K["max_K_unit"], mu_), mu_
            prior_slots += mu_ != "km/s"
    else:
        ku = draw(st.sampled_from(og.VEL_UNITS))
        K["mu"], K["sigma"], K["unit"] = cv(K["mu"], K["unit"], ku), cv(K["sigma"], K["unit"], ku), ku
        prior_slots += ku != "km/s"
    for i, v in enumerate(pr["v"]):
        un = _trend_unit(draw, i)
        v["mu"], v["sigma"] = cv(v["mu"], v["unit"], un), cv(v["sigma"], v["unit"], un)
        prior_slots += un != v["unit"]
        v["unit"] = un
    for o in pr["offsets"]:
        un = draw(st.sampled_from(og.VEL_UNITS))
        o["mu"], o["sigma"] = cv(o["mu"], o["unit"], un), cv(o["sigma"], o["unit"], un)
        prior_slots += un != o["unit"]
        o["unit"] = un
    s = pr["s"]
    su = draw(st.sampled_from(og.VEL_UNITS))
    if s["kind"] == "const":
        s["value"] = cv(s["value"], s["unit"], su)
    elif s["kind"] == "lognormal":
        s["mu"] = s["mu"] + math.log(cv(1.0, s["unit"], su))
    s["unit"] = su
    # rows are kept in canonical numbers; row_units decides how the twin's library is expressed.
    # the twin's s column must be given in the twin's data unit when no explicit unit is chosen
    twin["row_units"] = draw(gens.row_units(True))
    du_t = twin["surveys"][0]["unit"]
    twin["rows"] = [dict(r, s=cv(r["s"], "km/s", du_t)) for r in base["rows"]]
    slots += sum(twin["row_units"][k] not in ("d", "rad", None) for k in twin["row_units"])
    pair = {"base": base, "twin": twin, "n_unit_slots_changed": int(slots + prior_slots),
            "prior_slots_changed": int(prior_slots),
            "path": draw(st.sampled_from(["mem", "mem", "cache", "file"])),
            "rng_seed": draw(st.integers(0, 2**32 - 1)), "n_linear": draw(st.sampled_from([1, 2, 4]))}
    return pair


def body_factory(ctx):
    import astropy.units as u

    import thejoker as tj

    def run_one(spec, pair):
        prob = og.Problem(spec)
        data = gens.build_data(spec)
        prior = gens.build_prior(spec["prior"])
        smp = gens.build_samples(spec)
        rows_eff = c01.effective_rows(smp, prob.data_unit)
        joker = tj.TheJoker(prior)
        if pair["path"] == "file":
            # base and twin libraries are written under the same file name, one after the other
            fn = os.path.join(ctx.workdir, "c07lib.hdf5")
            smp.write(fn, overwrite=True)
            ll = np.asarray(joker.marginal_ln_likelihood(data, fn), dtype=float)
        else:
            ll = np.asarray(joker.marginal_ln_likelihood(data, smp, in_memory=pair["path"] == "mem"), dtype=float)
        spec2 = dict(spec, path=pair["path"], rng_seed=pair["rng_seed"], n_linear=pair["n_linear"])
        out, calls, rg, pool = c03.run_rejection(ctx, spec2, prob, data, prior, smp)
        return dict(prob=prob, rows=rows_eff, ll=ll, out=out, calls=calls, rg=rg)

    def body(pair):
        with ctx.sut("evaluating base problem"):
            B = run_one(pair["base"], pair)
        with ctx.sut("evaluating unit-transformed twin"):
            T = run_one(pair["twin"], pair)
        pb, pt = B["prob"], T["prob"]
        if pair["path"] == "file":
            # a file holding the base library, extended by the same rows expressed in the twin's units: either the
            # append is refused, or the file must then hold the same physical samples twice
            import thejoker as tj_
            fn = os.path.join(ctx.workdir, "c07append.hdf5")
            lb = gens.build_samples(pair["base"])
            lt = gens.build_samples(dict(pair["twin"], rows=pair["twin"]["rows"]))
            lb.write(fn, overwrite=True)
            try:
                lt.write(fn, append=True)
                appended = True
            except Exception:
                appended = False
            if appended:
                db = gens.build_data(pair["base"])
                pr_b = gens.build_prior(pair["base"]["prior"])
                with ctx.sut("marginal_ln_likelihood on an appended file"):
                    ll_file = np.asarray(tj_.TheJoker(pr_b).marginal_ln_likelihood(db, fn), dtype=float)
                nb_ = len(B["ll"])
                for half in (ll_file[:nb_], ll_file[nb_:]):
                    if half.shape != B["ll"].shape or np.any(np.abs(half - B["ll"]) > 1e-6 * (1 + np.abs(B["ll"]))):
                        raise Violation("a library appended in other (equivalent) units does not hold the same physical "
                                        "samples", base=B["ll"][:5], from_file=half[:5])
                ctx.classes["append in other units accepted and consistent"] += 1
            else:
                ctx.classes["append in other units refused"] += 1
        n = pb.n
        f = float(og.conv(1.0, pb.data_unit, pt.data_unit))  # twin data units per base data unit
        f4 = pair["twin"]["prior"]["K"]["kind"] == "fcm" and pair["twin"]["prior"]["P"]["unit"] != "d"
        used_f4 = False
        max_dev = [0.0]
        # ---- likelihood: constant Jacobian
        for i, (rb, rt) in enumerate(zip(B["rows"], T["rows"])):
            if rb["e"] > 0.99:
                continue
            evb = og.evaluate(pb, rb)
            evt = og.evaluate(pt, rt)
            # the code's actual values may follow a recorded defect (e.g. F1: jitter ignored, so chi^2 is far larger
            # than the true closed form's): take the round-off scale from both readings and from the values themselves
            evb2 = og.evaluate(pb, rb, tuple(pb.applicable_flags(rb)))
            evt2 = og.evaluate(pt, rt, tuple(pt.applicable_flags(rt)))
            tol = (max(og.tol_of(evb), og.tol_of(evb2)) + max(og.tol_of(evt), og.tol_of(evt2)) + 1e-9
                   + 1e-11 * (abs(B["ll"][i]) + abs(T["ll"][i])))
            d = abs(T["ll"][i] + n * math.log(f) - B["ll"][i])
            max_dev[0] = max(max_dev[0], d)
            if f4:
                # recorded defect F4 breaks the invariance for this twin: its value must then be exactly the closed
                # form with F4's signature (best explanation among the applicable defect signatures)
                best = (None, float("inf"))
                for flags in og.subsets(pt.applicable_flags(rt)):
                    r2 = og.ratio_of(og.evaluate(pt, rt, flags), T["ll"][i])
                    if r2 < best[1]:
                        best = (flags, r2)
                if best[1] <= 1.0 and "F4" in best[0]:
                    used_f4 = True
                    continue
            else:
                ctx.stat_max("max |ll_twin + n ln f - ll_base| / tol", d / tol)
            if d <= tol:
                continue
            raise Violation("marginal ln-likelihood is not invariant (up to the Jacobian) under a change of units",
                            row=rb, ll_base=float(B["ll"][i]), ll_twin=float(T["ll"][i]), n=n, unit_ratio=f,
                            expected_difference=-n * math.log(f), diff=d, tol=tol,
                            base_units=pb.data_unit, twin_units=pt.data_unit)
        if used_f4:
            ctx.known("F4")
        # ---- accepted set with equal seeds
        nlin = pair["n_linear"]
        Pb = B["out"]["P"].to_value(u.day)[::nlin]
        Pt = T["out"]["P"].to_value(u.day)[::nlin]
        same = len(Pb) == len(Pt) and np.allclose(Pb, Pt, rtol=1e-12, atol=0)
        if not same and not used_f4:
            # can round-off explain it? a uniform draw within the round-off of the acceptance ratio
            uu = B["rg"].calls("uniform")[0]["out"]
            r = np.exp(B["ll"] - B["ll"].max())
            if np.min(np.abs(r - uu) - 4 * max_dev[0] * r) > 1e-12:
                raise Violation("different prior samples accepted for the same problem in other units (equal seeds)",
                                accepted_base=Pb, accepted_twin=Pt, max_ll_deviation=max_dev[0])
            ctx.classes["knife-edge acceptance (skipped)"] += 1
        if same:
            # ---- linear draw: (mean, cov) scale with f, f^2 ; returned columns physically equal
            names = c03.linear_names(pb)
            ub = c03.linear_units(pb)
            ut = c03.linear_units(pt)
            for k, (cb, ct) in enumerate(zip(B["calls"], T["calls"])):
                i = c03.match_row(B["rows"], {nm: float(B["out"][nm][k * nlin].to_value(un)) for nm, un in
                                              (("P", u.day), ("e", u.one), ("omega", u.rad), ("M0", u.rad),
                                               ("s", og.unit(pb.data_unit)))})
                if i is None or B["rows"][i]["e"] > 0.99:
                    continue
                if not (np.all(np.isfinite(cb["mean"])) and np.all(np.isfinite(cb["cov"]))):
                    continue  # defect F2 (non-finite covariance), reported by C03
                ev = og.evaluate(pb, B["rows"][i], want_posterior=True)
                # use the code's own base values as reference, scaled
                ref = dict(ev)
                ref["a"] = np.asarray(cb["mean"]) * f
                ref["A"] = np.asarray(cb["cov"]) * f * f
                ratio = og.posterior_ratio(ref, ct["mean"], ct["cov"])
                if ratio > 64.0 and not f4:
                    raise Violation("mean/covariance of the linear draw do not scale with the data-unit ratio",
                                    mean_base=cb["mean"], mean_twin=ct["mean"], ratio_f=f, cov_base=cb["cov"],
                                    cov_twin=ct["cov"], excess=ratio)
                if ratio > 64.0:
                    ctx.known("F4")
                    continue
                ctx.stat_max("max posterior scaling error / tol", ratio)
            for nm, un_t in zip(names, ut):
                col = T["out"][nm]
                if not col.unit.is_equivalent(un_t):
                    raise Violation("twin column %s has unit %s" % (nm, col.unit))
            for nm in ("K", "v0"):
                if T["out"][nm].unit != og.unit(pt.data_unit):
                    raise Violation("returned %s is not in the twin's data unit" % nm, unit=str(T["out"][nm].unit),
                                    data_unit=pt.data_unit)
        nt = pair["n_unit_slots_changed"] >= 2 and pair["prior_slots_changed"] >= 1
        ctx.note_case(pair, nt, ["slots=%d" % min(pair["n_unit_slots_changed"], 9), "path:" + pair["path"],
                                 "twinP:" + pair["twin"]["prior"]["P"]["unit"], "K:" + pair["base"]["prior"]["K"]["kind"],
                                 "twin_data:" + pt.data_unit, "accepted_same" if same else "accepted_differs(F4)"])

    return body


def run(ctx):
    ctx.search("twins", twins(thorough=not ctx.quick), body_factory(ctx), quick=1200, thorough=16000)
