"""C10 - seeded runs are reproducible and randomness is confined to the given generator."""
import os
import random

import numpy as np
from hypothesis import strategies as st

from vt import gens
from vt import oracle_gauss as og
from vt.runner import Violation

RULE = ("A generated problem (data, default-type prior, library of 8-40 prior samples with deliberately duplicated rows) "
        "and a history of 1-5 calls on one TheJoker drawn from {marginal_ln_likelihood, rejection_sample from an object "
        "(in memory / cache), a file, or a *count*, iterative_rejection_sample (object / file), prior.sample(rng), "
        "read_batch(int, rng)} with generated options; the history is executed twice with fresh objects and equal "
        "seeds, the second time with numpy's and Python's global generators reseeded differently and, in a tenth of "
        "the cases, on a MultiPool(2) with equal batching. Oracle: bit-identical outputs at every step; global numpy / "
        "random state byte-identical before and after every call; no linear-parameter vector repeated between "
        "batches of one call (identical library rows in different batches have identical (a, A), so a repeated child "
        "stream would repeat the draw) or between successive identical calls. A second search runs one seeded prior.sample + "
        "by-count rejection_sample in three fresh interpreters with different PYTHONHASHSEED and compares digests. "
        "Non-trivial: a history of >=2 calls, or >=2 batches, or the by-count path."
        ' Also: the deprecated random_state= keyword in the second run; a user tempfile_path; a sampler created without rng must leave the global generators alone; the initial states of all generators handed to tasks are collected and any two whose first 6000 raw outputs overlap (shifted copies) are reported.')
SHARDS = {"quick": 4, "thorough": 16}
BUDGET = {"quick": 80, "thorough": 800}

ENTRIES = ["mll", "rej_mem", "rej_cache", "rej_file", "rej_count", "iter_mem", "iter_file", "prior_sample", "read_batch",
           "prior_sample_fail"]


@st.composite
def cases(draw, thorough=False):
    spec = draw(gens.problems(max_surveys=1, max_epochs=6, max_poly=2, n_rows=(8, 40), units=False))
    spec["prior"]["K"] = {"kind": "fcm", "sigma_K0": spec["prior"]["K"].get("sigma_K0", 30.0) if spec["prior"]["K"]["kind"] == "fcm" else 30.0,
                          "sigma_K0_unit": "km/s", "P0": 365.25, "P0_unit": "d", "max_K": None}
    spec["prior"]["via"] = "default"
    rows = spec["rows"]
    # duplicate rows at random places (same (a, A) in different batches)
    for _ in range(draw(st.integers(1, 4))):
        i = draw(st.integers(0, len(rows) - 1))
        j = draw(st.integers(0, len(rows) - 1))
        rows[j] = dict(rows[i])
    # weakly informative data so that several samples survive
    if draw(st.booleans()):
        for s in spec["surveys"]:
            s["err"] = [e * 50 for e in s["err"]]
    n = len(rows)
    hist = []
    for _ in range(draw(st.integers(1, 5))):
        e = draw(st.sampled_from(ENTRIES))
        c = {"entry": e, "n_batches": draw(st.integers(1, 5)), "n_linear": draw(st.sampled_from([1, 1, 2])),
             "randomize": draw(st.booleans()), "logprobs": draw(st.booleans()),
             "max_post": draw(st.one_of(st.none(), st.integers(1, n))),
             "n_req": draw(st.integers(1, 4)), "init_batch": draw(st.integers(1, n)), "count": draw(st.integers(5, 60)),
             "size": draw(st.integers(1, n))}
        hist.append(c)
    if draw(st.integers(0, 3)) == 0 and len(hist) >= 1:
        hist.append(dict(hist[-1]))  # the same call twice in a row
    if draw(st.integers(0, 3)) == 0:
        e = draw(st.sampled_from(["prior_sample", "rej_count"]))
        first = dict(hist[0], entry=e)
        hist.extend([first, dict(first)])  # two successive draws of prior samples from one generator
    return {"spec": spec, "history": hist, "seed": draw(st.integers(0, 2**32 - 1)),
            "alt_seed": draw(st.integers(1, 2**31 - 1)), "multipool": draw(st.integers(0, 9)) == 0,
            # constructor variants: the generator handed over under its deprecated keyword in the second run; a user-chosen
            # directory for temporary files
            "alias": draw(st.integers(0, 3)) == 0, "tempfile_path": draw(st.integers(0, 2)) == 0}


def table_bits(s):
    return {nm: np.asarray(s[nm].value if hasattr(s[nm], "value") else s[nm]).tobytes() for nm in s.par_names}


def global_state():
    """numpy's global generator (which bit generator object it is bound to, and its full state) and Python's"""
    st_ = np.random.get_state(legacy=False)

    def flat(x):
        if isinstance(x, dict):
            return tuple((k, flat(v)) for k, v in sorted(x.items()))
        if isinstance(x, np.ndarray):
            return x.tobytes()
        return x

    return id(np.random.get_bit_generator()), flat(st_), random.getstate()


def body_factory(ctx):
    import astropy.units as u

    import thejoker as tj
    from thejoker.utils import read_batch

    def run_history(case, pool, global_seed, prior, data, lib, libfile, second=False):
        np.random.seed(global_seed % (2**32))
        random.seed(global_seed)
        kw_ctor = {}
        if case.get("tempfile_path"):
            kw_ctor["tempfile_path"] = os.path.join(ctx.workdir, "c10-tempfiles")
        handed = np.random.default_rng(case["seed"])
        state0 = repr(handed.bit_generator.state)
        if second and case.get("alias"):
            # `random_state` is the (deprecated, still accepted) former name of `rng`
            joker = tj.TheJoker(prior, random_state=handed, pool=pool, **kw_ctor)
        else:
            joker = tj.TheJoker(prior, rng=handed, pool=pool, **kw_ctor)
        prng = np.random.default_rng(case["seed"] + 1)
        if case.get("alias") is not None and case["seed"] % 3 == 0:
            # a sampler created without a generator makes one of its own: that, too, must leave the global generators alone
            g_before = global_state()
            try:
                jn = tj.TheJoker(prior, pool=pool, **kw_ctor)
                jn.rejection_sample(data, lib, in_memory=True)
            except Exception as ex:
                raise Violation("TheJoker(prior) without rng: %s: %s" % (type(ex).__name__, str(ex)[:200]))
            if global_state() != g_before:
                raise Violation("creating and using a TheJoker without an explicit rng changed numpy's or Python's global random state")
        outs = []
        for k, c in enumerate(case["history"]):
            g0 = global_state()
            e = c["entry"]
            kw = dict(n_linear_samples=c["n_linear"], return_logprobs=c["logprobs"])
            try:
                if e == "mll":
                    o = joker.marginal_ln_likelihood(data, lib if k % 2 else libfile, n_batches=c["n_batches"])
                elif e == "rej_mem":
                    o = joker.rejection_sample(data, lib, in_memory=True, max_posterior_samples=c["max_post"], **kw)
                elif e == "rej_cache":
                    o = joker.rejection_sample(data, lib, n_batches=c["n_batches"], randomize_prior_order=c["randomize"],
                                               max_posterior_samples=c["max_post"], **kw)
                elif e == "rej_file":
                    o = joker.rejection_sample(data, libfile, n_batches=c["n_batches"], randomize_prior_order=c["randomize"],
                                               max_posterior_samples=c["max_post"], **kw)
                elif e == "rej_count":
                    o = joker.rejection_sample(data, c["count"], n_batches=c["n_batches"], **kw)
                elif e == "iter_mem":
                    o = joker.iterative_rejection_sample(data, lib, n_requested_samples=c["n_req"], init_batch_size=c["init_batch"],
                                                         in_memory=True, **kw)
                elif e == "iter_file":
                    o = joker.iterative_rejection_sample(data, libfile, n_requested_samples=c["n_req"], init_batch_size=c["init_batch"],
                                                         n_batches=c["n_batches"], randomize_prior_order=c["randomize"], **kw)
                elif e == "prior_sample_fail":
                    # a call that fails (non-integer size): whatever it does, it must not touch the global generators
                    try:
                        prior.sample(size=c["size"] + 0.5, rng=prng)
                    except Exception:
                        pass
                    o = np.zeros(1)
                elif e == "prior_sample":
                    o = prior.sample(size=c["size"], rng=prng, return_logprobs=c["logprobs"])
                else:
                    o = read_batch(libfile, ["P", "e"], c["size"], rng=prng)
            except Exception as ex:
                raise Violation("call %d (%s) raised %s: %s" % (k, e, type(ex).__name__, str(ex)[:200]))
            if global_state() != g0:
                raise Violation("call %d (%s) changed numpy's or Python's global random state" % (k, e))
            outs.append(o)
        # randomness is taken from the generator that was handed over: after a call that draws random numbers it has moved on
        if any(c_["entry"].startswith(("rej", "iter")) for c_ in case["history"]) and repr(handed.bit_generator.state) == state0:
            raise Violation("the generator handed to TheJoker was not advanced by calls that draw random numbers (the sampler "
                            "works on a copy: two samplers given the same generator would repeat each other's draws)")
        return outs

    def body(case):
        spec = case["spec"]
        data = gens.build_data(spec)
        prior = gens.build_prior(spec["prior"])
        lib = gens.build_samples(spec)
        lib["ln_prior"] = -0.5 * np.arange(len(lib), dtype=float)
        libfile = os.path.join(ctx.workdir, "c10lib.hdf5")
        lib.write(libfile, overwrite=True)
        import schwimmbad
        from vt.recgen import RecordingPool, overlapping_streams
        rpool = RecordingPool(size=1)      # in-process, in task order (like SerialPool); remembers the generators handed out
        A = run_history(case, rpool, 1234, prior, data, lib, libfile)
        hits = overlapping_streams([d for _, d in rpool.child_state_dicts])
        if hits:
            i_, j_, pos_ = hits[0]
            raise Violation("the random streams handed to two tasks overlap: task %d (call %d) starts %d draws into the stream of "
                            "task %d (call %d) - successive calls / batches do not get independent streams"
                            % (j_, rpool.child_state_dicts[j_][0], pos_, i_, rpool.child_state_dicts[i_][0]), n_tasks=len(rpool.child_state_dicts))
        if case["multipool"]:
            from schwimmbad import MultiPool
            with MultiPool(2) as mp:
                B = run_history(case, mp, case["alt_seed"], prior, data, lib, libfile, second=True)
        else:
            B = run_history(case, schwimmbad.SerialPool(), case["alt_seed"], prior, data, lib, libfile, second=True)
        names = og  # noqa
        multi_batch = False
        n_by_count = 0
        drawsets = []
        for k, (c, a, b) in enumerate(zip(case["history"], A, B)):
            e = c["entry"]
            if isinstance(a, np.ndarray):
                if not (isinstance(b, np.ndarray) and a.shape == b.shape and a.tobytes() == b.tobytes()):
                    raise Violation("call %d (%s): equal seeds gave different results%s" % (
                        k, e, " (SerialPool vs MultiPool)" if case["multipool"] else ""), first=a[:6], second=np.asarray(b)[:6])
                drawsets.append(None)
                continue
            if list(a.par_names) != list(b.par_names) or len(a) != len(b) or table_bits(a) != table_bits(b):
                raise Violation("call %d (%s): equal seeds (fresh objects, different global random state%s) gave "
                                "different results" % (k, e, ", SerialPool vs MultiPool" if case["multipool"] else ""),
                                len_first=len(a), len_second=len(b),
                                P_first=a["P"].value[:6], P_second=b["P"].value[:6])
            if e == "rej_count":
                n_by_count += 1
            if e.startswith(("rej", "iter")):
                lin = [nm for nm in a.par_names if nm in ("K", "v0", "v1", "v2")]
                vecs = [tuple(float(a[nm].value[i]) for nm in lin) for i in range(len(a))]
                if len(set(vecs)) != len(vecs):
                    raise Violation("call %d (%s): a linear-parameter draw is repeated inside one result (two batches or "
                                    "two samples received the same random stream)" % (k, e), n=len(vecs), distinct=len(set(vecs)))
                drawsets.append(set(vecs))
                if e in ("rej_cache", "rej_file", "iter_file") and c["n_batches"] > 1 and len(a) > c["n_linear"]:
                    multi_batch = True
            else:
                drawsets.append(None)
        # prior samples drawn by successive calls from one generator must come from different parts of its stream:
        # a period value repeated between two such calls has probability 0
        fresh = [(k, set(np.asarray(a["P"].value).tolist())) for k, (c, a) in enumerate(zip(case["history"], A))
                 if c["entry"] in ("prior_sample", "rej_count")]
        for x in range(len(fresh)):
            for y in range(x + 1, len(fresh)):
                e1, e2 = case["history"][fresh[x][0]]["entry"], case["history"][fresh[y][0]]["entry"]
                if e1 == e2 and (fresh[x][1] & fresh[y][1]):
                    raise Violation("calls %d and %d (%s) drew identical prior samples from the same generator "
                                    "(successive calls must receive different random streams)" % (fresh[x][0], fresh[y][0], e1),
                                    common=sorted(fresh[x][1] & fresh[y][1])[:5])
        for i in range(len(drawsets)):
            for j in range(i + 1, len(drawsets)):
                if drawsets[i] and drawsets[j] and (drawsets[i] & drawsets[j]):
                    raise Violation("calls %d and %d of one TheJoker produced an identical linear-parameter draw "
                                    "(successive calls must receive different random streams)" % (i, j))
        nt = len(case["history"]) >= 2 or multi_batch or n_by_count > 0
        ctx.note_case(case, nt, ["calls=%d" % min(len(case["history"]), 6), "multipool" if case["multipool"] else "serial",
                                 "multi_batch_draws" if multi_batch else "single_batch",
                                 "ctor:random_state alias" if case.get("alias") else "ctor:rng",
                                 "ctor:tempfile_path" if case.get("tempfile_path") else "ctor:default tempfile_path"] +
                      sorted(set("entry:" + c["entry"] for c in case["history"])))

    return body


# ----------------------------------------------------------------------------- other interpreter sessions
CHILD = r"""
import sys, json, hashlib, warnings
warnings.filterwarnings("ignore")
sys.path.insert(0, sys.argv[1])
from vt import build; build.ensure_ext()
import numpy as np, astropy.units as u
import thejoker as tj
from vt import gens
spec = json.load(open(sys.argv[2]))
prior = gens.build_prior(spec["prior"]); data = gens.build_data(spec)
h = hashlib.sha256()
s = prior.sample(size=16, generate_linear=True, return_logprobs=True, rng=np.random.default_rng(spec["seed"]))
for nm in sorted(s.par_names): h.update(np.asarray(s[nm].value if hasattr(s[nm], "value") else s[nm]).tobytes())
out = tj.TheJoker(prior, rng=np.random.default_rng(spec["seed"])).rejection_sample(data, 40)
for nm in sorted(out.par_names): h.update(np.asarray(out[nm].value).tobytes())
print("DIGEST", h.hexdigest())
"""


@st.composite
def session_cases(draw):
    spec = draw(gens.problems(max_surveys=1, max_epochs=5, max_poly=2, n_rows=(1, 2), units=False))
    spec["prior"]["via"] = "default"
    if spec["prior"]["K"]["kind"] != "fcm":
        spec["prior"]["K"] = {"kind": "fcm", "sigma_K0": 30.0, "sigma_K0_unit": "km/s", "P0": 365.25, "P0_unit": "d", "max_K": None}
    spec["seed"] = draw(st.integers(0, 2**31))
    spec["hash_seeds"] = [0, draw(st.integers(1, 4000)), draw(st.integers(4001, 2**31))]
    return spec


def session_body_factory(ctx):
    import json
    import subprocess
    import sys

    from vt.runner import VERIF, jsonable

    def body(spec):
        fn = os.path.join(ctx.workdir, "c10session.json")
        with open(fn, "w") as f:
            json.dump(jsonable(spec), f)
        procs = []
        for hs in spec["hash_seeds"]:
            env = dict(os.environ, PYTHONHASHSEED=str(hs))
            procs.append(subprocess.Popen([sys.executable, "-W", "ignore", "-c", CHILD, VERIF, fn], env=env,
                                          stdout=subprocess.PIPE, stderr=subprocess.PIPE, text=True))
        digests = []
        for p_ in procs:
            out, err = p_.communicate(timeout=600)
            d = [l.split()[1] for l in out.split("\n") if l.startswith("DIGEST")]
            if p_.returncode != 0 or not d:
                raise Violation("a seeded run in a fresh interpreter failed", stderr=err[-400:])
            digests.append(d[0])
        if len(set(digests)) != 1:
            raise Violation("equal seeds give different prior samples / posterior samples in different interpreter "
                            "sessions (outputs depend on the string-hash seed of the process)", digests=digests,
                            hash_seeds=spec["hash_seeds"])
        ctx.note_case(spec, True, ["sessions:3 interpreters"])

    return body


def run(ctx):
    ctx.search("histories", cases(thorough=not ctx.quick), body_factory(ctx), quick=240, thorough=8000)
    ctx.search("sessions", session_cases(), session_body_factory(ctx), quick=4, thorough=160, shrink=False)
