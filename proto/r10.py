from ref import *
import os, tempfile
from scipy import stats
from astropy.time import Time
# C09 draws KS
prior = tj.JokerPrior.default(P_min=2*u.day, P_max=5000*u.day, sigma_K0=300*u.km/u.s, P0=100*u.day, sigma_v=[100*u.km/u.s, 0.3*u.km/u.s/u.day], poly_trend=2)
s = prior.sample(size=20000, generate_linear=True, rng=np.random.default_rng(3))
P = s['P'].value; e = s['e'].value; K = s['K'].value
print("P support", P.min()>=2, P.max()<=5000, "KS P", stats.kstest(np.log(P/2)/np.log(2500), 'uniform').pvalue)
print("KS e", stats.kstest(e, stats.beta(0.867,3.03).cdf).pvalue)
for nm in ['omega','M0']:
    a = s[nm].to_value(u.rad); print(nm, a.min(), a.max(), "KS", stats.kstest((a % (2*np.pi))/(2*np.pi), 'uniform').pvalue)
sig = np.clip(300.*(P/100.)**(-1/3)/np.sqrt(1-e**2), 0, 500.)
print("frac capped", (sig>=500).mean(), "KS K/sig", stats.kstest(K/sig, 'norm').pvalue, "KS K/sig(uncapped) ", stats.kstest(K/(300.*(P/100.)**(-1/3)/np.sqrt(1-e**2)), 'norm').pvalue)
print("KS v0", stats.kstest(s['v0'].value/100., 'norm').pvalue, "KS v1", stats.kstest(s['v1'].value/0.3, 'norm').pvalue)
# C10(d): distinct streams across batches and calls, file path
def mkdata(n, seed=0, errscale=1.):
    r = np.random.default_rng(seed); t = 56000 + np.sort(r.uniform(0, 300, n))
    return tj.RVData(t=t, rv=r.normal(0,5,n)*u.km/u.s, rv_err=errscale*r.uniform(0.1,0.5,n)*u.km/u.s)
r = np.random.default_rng(1); N=64
smp = tj.JokerSamples(); smp['P'] = np.full(N, 50.)*u.day; smp['e']=np.full(N,0.1); smp['omega']=np.full(N,1.)*u.rad; smp['M0']=np.full(N,1.)*u.rad; smp['s']=np.zeros(N)*u.km/u.s
p2 = tj.JokerPrior.default(P_min=2*u.day, P_max=500*u.day, sigma_K0=30*u.km/u.s, sigma_v=100*u.km/u.s)
data = mkdata(4, errscale=50.)
j = tj.TheJoker(p2, rng=np.random.default_rng(5))
o1 = j.rejection_sample(data, smp, n_batches=8); o2 = j.rejection_sample(data, smp, n_batches=8)
allK = np.concatenate([o1['K'].value, o2['K'].value]); print("identical rows -> all accepted", len(o1), "distinct K values", len(np.unique(allK)), "of", len(allK))
# C12: reorder columns append
td = tempfile.mkdtemp(); f = os.path.join(td,'a.hdf5')
a = tj.JokerSamples(); a['P']=[1.,2.]*u.day; a['e']=[.1,.2]; a.write(f)
b = tj.JokerSamples(); b['e']=[.3,.4]; b['P']=[3.,4.]*u.day
try: b.write(f, append=True); rr = tj.JokerSamples.read(f); print("reordered append accepted:", rr['P'], rr['e'])
except Exception as ex: print("reordered append refused", type(ex).__name__)
# float32 table append
c = tj.JokerSamples(); c['P']=np.array([5.,6.], dtype=np.float32)*u.day; c['e']=np.array([.5,.6], dtype=np.float32)
try: c.write(f, append=True); rr = tj.JokerSamples.read(f); print("float32 append accepted:", rr['P'], rr['e'].dtype)
except Exception as ex: print("float32 append refused", type(ex).__name__)
# C19 edge: phase exactly on bin edge / phase==1
s1 = tj.JokerSamples(); s1['P'] = [10.]*u.day
dd = tj.RVData(t=56000 + np.array([0., 10., 20., 25.]), rv=np.ones(4)*u.km/u.s, rv_err=np.ones(4)*u.km/u.s)
print("phases", dd.phase(s1['P']), "coverage n_bins=2", tj.phase_coverage(s1, dd, n_bins=2), "mpg", tj.max_phase_gap(s1, dd))
d1 = tj.RVData(t=[56000.], rv=[1.]*u.km/u.s, rv_err=[1.]*u.km/u.s)
try: print("single obs mpg", tj.max_phase_gap(s1, d1), "cov", tj.phase_coverage(s1,d1), "span", tj.periods_spanned(s1,d1))
except Exception as ex: print("single obs:", type(ex).__name__, ex)
