from ref import *
import os, tempfile, traceback, time
from astropy.time import Time
def mkdata(n, unit=u.km/u.s, base=56000., span=300., seed=0):
    r = np.random.default_rng(seed)
    t = base + np.sort(r.uniform(0, span, n))
    return tj.RVData(t=t, rv=r.normal(0,5,n)*unit, rv_err=r.uniform(0.1,0.5,n)*unit)
def mksamples(N, s=0., pt=1, no=0, seed=1, lnp=False, t_ref=None):
    r = np.random.default_rng(seed)
    smp = tj.JokerSamples(poly_trend=pt, n_offsets=no, t_ref=t_ref)
    smp['P'] = r.uniform(2, 500, N)*u.day; smp['e'] = r.uniform(0,0.9,N); smp['omega']=r.uniform(0,6.28,N)*u.rad
    smp['M0']=r.uniform(0,6.28,N)*u.rad; smp['s']=np.full(N, s)*u.km/u.s
    if lnp: smp['ln_prior'] = r.normal(size=N)
    return smp
td = tempfile.mkdtemp()
print("=== H: C12")
s = mksamples(5, t_ref=Time(56000.123, format='mjd', scale='tcb'), pt=2, no=1)
f = os.path.join(td, 'a.hdf5')
s.write(f)
r = tj.JokerSamples.read(f)
print(r.tbl.meta, r.par_names, [r[k].unit for k in r.par_names])
print("equal:", all(np.array_equal(r[k].value, s[k].value) for k in s.par_names))
s.write(f, append=True); r = tj.JokerSamples.read(f); print("len after append", len(r))
# incompatible append: different columns
s2 = mksamples(3, pt=2, no=1, t_ref=Time(56000.123, format='mjd', scale='tcb')); s2['K'] = np.ones(3)*u.km/u.s
import hashlib
h0 = hashlib.sha256(open(f,'rb').read()).hexdigest()
try:
    s2.write(f, append=True); print("append extra col: accepted; len", len(tj.JokerSamples.read(f)), tj.JokerSamples.read(f).par_names)
except Exception as ex: print("append extra col refused:", type(ex).__name__, str(ex)[:100]); print("file unchanged:", h0 == hashlib.sha256(open(f,'rb').read()).hexdigest())
s3 = mksamples(3, pt=2, no=1, t_ref=Time(56000.123, format='mjd', scale='tcb')); del s3.tbl['s']
h0 = hashlib.sha256(open(f,'rb').read()).hexdigest()
try:
    s3.write(f, append=True); print("append fewer col: accepted; len", len(tj.JokerSamples.read(f)))
except Exception as ex: print("append fewer col refused:", type(ex).__name__, str(ex)[:100]); print("file unchanged:", h0 == hashlib.sha256(open(f,'rb').read()).hexdigest(), len(tj.JokerSamples.read(f)))
s4 = mksamples(3, pt=2, no=1, t_ref=Time(56000.123, format='mjd', scale='tcb')); s4['P'] = s4['P'].to(u.yr)
h0 = hashlib.sha256(open(f,'rb').read()).hexdigest()
try:
    s4.write(f, append=True); print("append other unit: accepted; len", len(tj.JokerSamples.read(f)))
except Exception as ex: print("append other unit refused:", type(ex).__name__, str(ex)[:100]); print("file unchanged:", h0 == hashlib.sha256(open(f,'rb').read()).hexdigest())
s5 = mksamples(3, pt=2, no=1, t_ref=Time(56001.123, format='mjd', scale='tcb'))
try:
    s5.write(f, append=True); print("append other t_ref: accepted; len", len(tj.JokerSamples.read(f)))
except Exception as ex: print("append other t_ref refused:", type(ex).__name__, str(ex)[:100]); print("file unchanged:", h0 == hashlib.sha256(open(f,'rb').read()).hexdigest())
s6 = mksamples(3, pt=1, no=0, t_ref=Time(56000.123, format='mjd', scale='tcb'))
try:
    s6.write(f, append=True); print("append other poly_trend: accepted; len", len(tj.JokerSamples.read(f)))
except Exception as ex: print("append other poly refused:", type(ex).__name__, str(ex)[:100]); print("file unchanged:", h0 == hashlib.sha256(open(f,'rb').read()).hexdigest())
# FITS
ff = os.path.join(td, 'a.fits')
try:
    s.write(ff); r = tj.JokerSamples.read(ff); print("fits", r.tbl.meta, all(np.array_equal(r[k].value, s[k].value) for k in s.par_names), [r[k].unit for k in r.par_names])
except Exception as ex: traceback.print_exc()
# read_batch
from thejoker.utils import read_batch
print(read_batch(f, ['P','e'], np.array([3,1,1,0]), units={'P':u.yr}))
print(s['P'][[3,1,1,0]].to(u.yr))
try: print(read_batch(f, ['P','e'], np.array([3,1,0])))
except Exception as ex: print("unsorted idx:", type(ex).__name__, ex)
