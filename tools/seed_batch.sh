#!/bin/sh
# tools/seed_batch.sh "C01:m1:C01,C04" ...   -> runs seed_check for each, 4 at a time, summary lines to stdout
run_one() {
  id=$(echo "$1" | cut -d: -f1); m=$(echo "$1" | cut -d: -f2); checks=$(echo "$1" | cut -d: -f3)
  /verif/tools/seed_check.py ${SEEDROOT:-/tmp/seedwt}/$id/SEED/$m $id-$m --checks "$checks" ${NOSUITE:+--no-suite} > /tmp/seedres/$id-$m.result.json 2>&1
  python3 - "$id-$m" <<'PY'
import sys, json
n = sys.argv[1]
try:
    d = json.load(open('/tmp/seedres/%s.result.json' % n))
    print(n, "valid=%s" % d.get('valid'), "suite=%s" % d.get('stable_suite_patched'), [(r['check'], r['verdict']) for r in d['ran']],
          "demo:", d.get('demo_unpatched', {}).get('exit'), d.get('demo_patched', {}).get('exit'))
except Exception as e:
    print(n, "ERROR", e, open('/tmp/seedres/%s.result.json' % n).read()[-300:])
PY
}
i=0
for spec in "$@"; do
  run_one "$spec" &
  i=$((i+1))
  if [ $((i % ${PAR:-4})) -eq 0 ]; then wait; fi
done
wait
