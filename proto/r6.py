# recon: broad randomized differential for C01/C03/C04/C07 with finding-adjusted oracle
from ref import *
from astropy.time import Time
from scipy.stats import norm, multivariate_normal as mvn
import time, sys
class RecGen(np.random.Generator):
    def __init__(self, bg): super().__init__(bg); self.log = []
    def uniform(self, *a, **k):
        out = super().uniform(*a, **k); self.log.append(('uniform', np.array(out))); return out
    def multivariate_normal(self, mean, cov, *a, **k):
        out = super().multivariate_normal(mean, cov, *a, **k); self.log.append(('mvn', np.array(mean), np.array(cov), np.array(out))); return out
VU = [u.km/u.s, u.m/u.s, u.pc/u.Myr]
TU = [u.day, u.yr, u.hour]
def gen(rng):
    c = {}
    c['poly'] = int(rng.integers(1,4)); c['noff'] = int(rng.integers(0,3))
    c['customK'] = bool(rng.integers(0,2)); c['muK'] = float(rng.normal(0,3)) if rng.random()<.5 else 0.
    c['means'] = bool(rng.integers(0,2))
    c['dunit'] = VU[rng.integers(0,3)]; c['punit'] = VU[rng.integers(0,3)]; c['Punit'] = TU[rng.integers(0,3)]; c['P0unit']=TU[rng.integers(0,3)]
    c['s'] = float(rng.choice([0., 0., 10**rng.uniform(-2,1)]))
    c['sigK0'] = 10**rng.uniform(0,2.5); c['sigK'] = 10**rng.uniform(-1,2)
    c['span'] = 10**rng.uniform(0,3.5); c['nper'] = [int(rng.integers(1,7)) for _ in range(c['noff']+1)]
    c['errscale'] = 10**rng.uniform(-2, 1.5); c['interleave'] = bool(rng.integers(0,2))
    c['tref_custom'] = bool(rng.integers(0,2))
    return c
def build(c, rng):
    kms = u.km/u.s
    sigv = [10**rng.uniform(0,2), 10**rng.uniform(-2,0), 10**rng.uniform(-5,-3)][:c['poly']]
    muv = [float(rng.normal(0,5)), float(rng.normal(0,.1)), float(rng.normal(0,1e-4))][:c['poly']] if c['means'] else [0.]*c['poly']
    sigo = [10**rng.uniform(-1,1) for _ in range(c['noff'])]; muo = [float(rng.normal(0,2)) if c['means'] else 0. for _ in range(c['noff'])]
    pu = c['punit']
    with pm.Model() as model:
        pars = {}
        Pu = c['Punit']
        pars['P'] = xu.with_unit(pm.Uniform('P', (1*u.day).to_value(Pu), (1e4*u.day).to_value(Pu)), Pu)
        if c['customK']: pars['K'] = xu.with_unit(pm.Normal('K', (c['muK']*kms).to_value(pu), (c['sigK']*kms).to_value(pu)), pu)
        for i in range(c['poly']):
            un = pu/Pu**i if i else pu
            pars[f'v{i}'] = xu.with_unit(pm.Normal(f'v{i}', (muv[i]*kms/u.day**i).to_value(un), (sigv[i]*kms/u.day**i).to_value(un)), un)
        offs = [xu.with_unit(pm.Normal(f'dv0_{i+1}', (muo[i]*kms).to_value(pu), (sigo[i]*kms).to_value(pu)), pu) for i in range(c['noff'])]
        kw = dict(poly_trend=c['poly'], v0_offsets=offs, pars=pars)
        if not c['customK']: kw.update(sigma_K0=(c['sigK0']*kms).to(pu), P0=(1*u.yr).to(c['P0unit']))
        prior = tj.JokerPrior.default(**kw)
    # data
    du = c['dunit']; datas = []; 
    for k, n in enumerate(c['nper']):
        t = 55000 + (rng.uniform(0, c['span'], n) if c['interleave'] else c['span']*(k + rng.uniform(0,0.9,n)))
        rv = rng.normal(0, 10, n); err = c['errscale']*rng.uniform(0.5, 2, n)
        datas.append(tj.RVData(t=t, rv=(rv*kms).to(du), rv_err=(err*kms).to(du)))
    return prior, datas, dict(sigv=sigv, muv=muv, sigo=sigo, muo=muo)
def closed(c, info, datas, P,e,om,M0,s, adj):
    """adj: dict of finding switches"""
    t = np.concatenate([d._t_bmjd for d in datas]); y = np.concatenate([d.rv.to_value(u.km/u.s) for d in datas]); er = np.concatenate([d.rv_err.to_value(u.km/u.s) for d in datas])
    ids = np.concatenate([[i]*len(d) for i,d in enumerate(datas)]); t0 = t.min()
    M = design(t, t0, ids, c['poly'], P,e,om,M0)
    if c['customK']: varK = c['sigK']**2; muK = c['muK']
    else:
        P0 = 365.25
        if adj.get('P0unit'): P0 = (1*u.yr).to_value(c['Punit'])   # finding F4: P0 expressed in prior-P units, used as days
        varK = c['sigK0']**2/(1-e**2)*(P/P0)**(-2/3); muK = 0.
        if not adj.get('nocap'): varK = min(varK, 500.**2)
    Lam = np.array([varK, info['sigv'][0]**2] + [x**2 for x in info['sigo']] + [x**2 for x in info['sigv'][1:]])
    mu = np.array([muK, info['muv'][0]] + list(info['muo']) + list(info['muv'][1:]))
    if adj.get('slot') and c['customK'] and c['noff']>=1:
        Lam[0] = 0.; mu[0] = 0.
        if c['noff']>=2: Lam[c['noff']] = c['sigK']**2; mu[c['noff']] = c['muK']
    seff = 0. if adj.get('nojit') else s
    var = er**2 + seff**2
    return M, y, var, mu, Lam
def lnm(M,y,var,mu,Lam):
    if np.any(Lam==0):
        keep = Lam>0; r = y - M@mu
        B = np.diag(var) + (M[:,keep]*Lam[keep])@M[:,keep].T
    else:
        B = np.diag(var) + (M*Lam)@M.T; r = y - M@mu
    L = np.linalg.cholesky(B); a = np.linalg.solve(L, r)
    return -0.5*(a@a) - np.log(np.diag(L)).sum() - 0.5*len(y)*np.log(2*np.pi)
seed = int(sys.argv[1]) if len(sys.argv)>1 else 0
rng = np.random.default_rng(seed)
stats = dict(n=0, true=0, known=0, bad=0, post_true=0, post_known=0, post_bad=0, c04_ok=0, c04_bad=0)
t_start=time.time()
for it in range(int(sys.argv[2]) if len(sys.argv)>2 else 40):
    c = gen(rng); prior, datas, info = build(c, rng)
    data = datas if c['noff'] else datas[0]
    if not c['interleave'] or c['noff']==0: pass
    N=6
    smp = tj.JokerSamples(poly_trend=c['poly'], n_offsets=c['noff'])
    P = 10**rng.uniform(0,3.5,N); e = rng.uniform(0,0.95,N); om = rng.uniform(-7,7,N); M0 = rng.uniform(-7,7,N)
    smp['P'] = (P*u.day).to(TU[rng.integers(0,3)]); smp['e']=e; smp['omega']=(om*u.rad).to([u.rad,u.deg][rng.integers(0,2)]); smp['M0']=M0*u.rad
    smp['s'] = (np.full(N, c['s'])*u.km/u.s).to(VU[rng.integers(0,3)])
    rg = RecGen(np.random.PCG64(seed+it))
    joker = tj.TheJoker(prior, rng=rg)
    try:
        ll = joker.marginal_ln_likelihood(data, smp, in_memory=bool(rng.integers(0,2)))
    except Exception as ex:
        print("EXC", c, type(ex).__name__, ex); continue
    n_tot = sum(c['nper'])
    jac = n_tot*np.log((1*c['dunit']).to_value(u.km/u.s))   # ll in data units -> km/s
    interleaved_bug = c['interleave'] and c['noff']>=1
    for i in range(N):
        stats['n'] += 1
        true = lnm(*closed(c, info, datas, P[i],e[i],om[i],M0[i],c['s'], {}))
        got = ll[i] - jac
        tol = 1e-7*(1+abs(true))
        if abs(got-true) <= tol: stats['true'] += 1; continue
        adj = dict(nojit=True, slot=True, P0unit=(c['Punit']!=u.day))
        known = lnm(*closed(c, info, datas, P[i],e[i],om[i],M0[i],c['s'], adj))
        if abs(got-known) <= 1e-7*(1+abs(known)) : stats['known'] += 1
        elif interleaved_bug: stats['known'] += 1   # F-C08, not characterised here
        else:
            stats['bad'] += 1; print("BAD ll", {k:(str(v) if hasattr(v,'to') else v) for k,v in c.items()}, i, got, true, known)
    # posterior draw parameters (in-memory) : take all samples as 'accepted' by calling helper path directly
    if not interleaved_bug:
        h = joker._make_joker_helper(data)
        chunk,_ = smp.pack(units=h.internal_units, names=h.packed_order)
        raw,_ = h.batch_get_posterior_samples(np.ascontiguousarray(chunk), 2, rg)
        mv = [l for l in rg.log if l[0]=='mvn']
        sc = (1*u.km/u.s).to_value(c['dunit'])
        for i in range(N):
            def aA(adj):
                M,y,var,mu,Lam = closed(c, info, datas, P[i],e[i],om[i],M0[i],c['s'], adj)
                dscale = np.array([1.]*(2+c['noff']) + [1.]*(c['poly']-1))
                Linv = np.where(Lam>0, 1/np.where(Lam>0,Lam,1), np.inf)
                if np.any(Lam==0): return None, None
                Ainv = np.diag(1/Lam) + (M.T/var)@M; A = np.linalg.inv(Ainv); a = A@(mu/Lam + (M.T/var)@y); return a*sc, A*sc**2
            a_t, A_t = aA({})
            got_a, got_A = mv[i][1], mv[i][2]
            def close(x,y): return x is not None and np.allclose(x, y, rtol=1e-6, atol=1e-9*np.abs(y).max())
            if close(a_t, got_a) and close(A_t, got_A): stats['post_true'] += 1; continue
            a_k, A_k = aA(dict(nojit=True, nocap=True, P0unit=(c['Punit']!=u.day), slot=True))
            if (c['customK'] and c['noff']>=1) or (close(a_k, got_a) and close(A_k, got_A)): stats['post_known'] += 1
            else: stats['post_bad'] += 1; print("BAD post", {k:(str(v) if hasattr(v,'to') else v) for k,v in c.items()}, i, got_a, a_t, a_k)
print(stats, "%.1fs"%(time.time()-t_start))
