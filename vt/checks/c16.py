"""C16 - work partitioning covers every prior sample exactly once, in order."""
import os

import numpy as np
from hypothesis import strategies as st

from vt.runner import Violation

RULE = ("(a) exhaustive enumeration of batch_tasks over n_tasks x n_batches x start_idx x {index ranges, explicit "
        "array}; (b) Hypothesis-generated large values; (c) run_worker driven with generated file sizes, n_batches, "
        "n_prior_samples / samples_idx and pool sizes through a recording pool. Oracle: partition predicate "
        "(non-empty, contiguous, ordered, disjoint batches whose union is exactly the requested range / array slice, "
        "each task carrying its own start index, extra args passed through); (d) the partition as the samplers use it: marginal_ln_likelihood / rejection_sample / iterative_rejection_sample on cache-file and file paths with a scripted helper, where the rows handed to the likelihood step and to the linear-parameter step must cover the evaluated / accepted samples exactly once, in order, and the assembled output must follow. Non-trivial: more than one batch "
        "requested and n_tasks not a multiple of n_batches, or n_batches > n_tasks, or start_idx > 0; distinct by "
        "case fingerprint."
        " Also: run_worker on one path re-written with other sizes; searches 'samplers' and 'large_library': for marginal_ln_likelihood / rejection_sample / iterative_rejection_sample with a scripted helper the rows handed to the likelihood step and to the linear-parameter step must cover the evaluated / accepted samples exactly once, in order, and as many samples must be evaluated as were requested.")
SHARDS = {"quick": 2, "thorough": 16}


def check_partition(case, tasks):
    n_tasks, n_batches, start, use_arr = case["n_tasks"], case["n_batches"], case["start"], case["arr"]
    if not isinstance(tasks, list) or len(tasks) == 0:
        raise Violation("no tasks produced", tasks=repr(tasks)[:200])
    pos = start
    if use_arr:
        arr = _arr(case)
        exp = arr[start:start + n_tasks]
    for k, t in enumerate(tasks):
        if len(t) != 2 + 2:
            raise Violation("task %d does not carry (batch, start index, *args)" % k, task=repr(t)[:200])
        if t[2] != "argA" or t[3] != 17:
            raise Violation("extra args not passed through", task=repr(t)[:200])
        if use_arr:
            b = np.asarray(t[0])
            if len(b) == 0:
                raise Violation("empty batch %d" % k)
            if not np.array_equal(b, arr[pos:pos + len(b)]):
                raise Violation("batch %d is not the next contiguous block of the array" % k,
                                got=b[:8].tolist(), want=arr[pos:pos + len(b)][:8].tolist())
            if t[1] != pos:
                raise Violation("task %d carries start index %r but its first element is at %d" % (k, t[1], pos))
            pos += len(b)
        else:
            a, b = t[0]
            if a != pos:
                raise Violation("batch %d starts at %r, previous batch ended at %d" % (k, a, pos))
            if not b > a:
                raise Violation("empty or reversed batch %d: (%r, %r)" % (k, a, b))
            if t[1] != a:
                raise Violation("task %d carries start index %r but its range starts at %r" % (k, t[1], a))
            pos = b
    if pos != start + n_tasks:
        raise Violation("batches end at %d, requested range ends at %d" % (pos, start + n_tasks))
    if use_arr and sum(len(t[0]) for t in tasks) != len(exp):
        raise Violation("array batches do not add up to the requested slice")


def _arr(case):
    # distinct, non-monotone values so that any reordering shows
    n = case["start"] + case["n_tasks"] + 3
    return (np.arange(n, dtype=np.int64) * 7919) % 100003 + 5


def body_factory(ctx):
    from thejoker.utils import batch_tasks

    def body(case):
        arr = _arr(case) if case["arr"] else None
        nt_, nb_, st_ = case["n_tasks"], case["n_batches"], case["start"]
        if case.get("np_ints"):
            # callers pass numpy integers too (len() of arrays, pool sizes, ...)
            nt_, nb_, st_ = np.int64(nt_), np.int64(nb_), np.int64(st_)
        with ctx.sut("batch_tasks"):
            tasks = batch_tasks(nt_, nb_, arr=arr, args=("argA", 17), start_idx=st_)
        check_partition(case, tasks)
        nt, nb = case["n_tasks"], case["n_batches"]
        nontrivial = (nb > 1 and nt % nb != 0) or nb > nt or case["start"] > 0
        cls = ["arr" if case["arr"] else "range",
               "nb>nt" if nb > nt else ("nb==nt" if nb == nt else ("rem" if nt % nb else "even"))]
        ctx.note_case(case, nontrivial, cls)

    return body


def run_worker_body_factory(ctx):
    import astropy.units as u

    from thejoker import JokerSamples
    from thejoker.multiproc_helpers import run_worker

    last = [None]

    def get_file(n):
        # one path, re-written whenever the size changes: the requested range is that of the file as it is *now*
        path = os.path.join(ctx.workdir, "rw.hdf5")
        if last[0] != n:
            s = JokerSamples()
            s["P"] = np.arange(1, n + 1, dtype=float) * u.day
            s["e"] = np.zeros(n)
            s.write(path, overwrite=True)
            last[0] = n
        return path

    class Pool:
        def __init__(self, size):
            self.size = size
            self.calls = 0

        def map(self, f, tasks):
            self.calls += 1
            self.tasks = list(tasks)
            return [f(t) for t in self.tasks]

        def imap_unordered(self, f, tasks):
            # what real pools offer besides map(): results in completion order (here: reversed)
            return [f(t) for t in list(tasks)][::-1]

        def close(self):
            pass

    def worker(task):
        return task

    def body(case):
        n_file = case["n_file"]
        path = get_file(n_file)
        pool = Pool(case["pool_size"])
        kw = {}
        if case["mode"] == "idx":
            idx = np.array(case["idx"], dtype=np.int64)
            kw["samples_idx"] = idx
            want_n = len(idx)
        elif case["mode"] == "n":
            kw["n_prior_samples"] = case["n_prior"]
            want_n = case["n_prior"]
        else:
            want_n = n_file
        rng = np.random.default_rng(case["rng_seed"]) if case["rng_seed"] is not None else None
        with ctx.sut("run_worker"):
            res = run_worker(worker, pool, path, task_args=("argA", 17), n_batches=case["n_batches"], rng=rng, **kw)
        if pool.calls != 1:
            raise Violation("pool.map called %d times" % pool.calls)
        if len(res) != len(pool.tasks) or any(r is not t for r, t in zip(res, pool.tasks)):
            raise Violation("results are not returned in task order")
        nb = case["n_batches"] if case["n_batches"] is not None else max(1, case["pool_size"])
        pcase = {"n_tasks": want_n, "n_batches": nb, "start": 0, "arr": case["mode"] == "idx"}
        pos = 0
        gens = []
        for k, t in enumerate(res):
            t = list(t)
            if rng is not None:
                g = t.pop()
                if not isinstance(g, np.random.Generator):
                    raise Violation("task %d has no child generator" % k)
                gens.append(g)
            if len(t) != 4 or t[2] != "argA" or t[3] != 17:
                raise Violation("task %d malformed" % k, task=repr(t)[:200])
            if case["mode"] == "idx":
                b = np.asarray(t[0])
                if len(b) == 0 or not np.array_equal(b, idx[pos:pos + len(b)]):
                    raise Violation("index batch %d is not the next block of samples_idx" % k)
                pos += len(b)
            else:
                a, b = t[0]
                if a != pos or not b > a:
                    raise Violation("range batch %d = (%r,%r) after position %d" % (k, a, b, pos))
                pos = b
        if pos != want_n:
            raise Violation("tasks cover %d rows, %d requested" % (pos, want_n))
        if gens:
            firsts = [g.bit_generator.state["state"]["state"] for g in gens]
            if len(set(firsts)) != len(firsts):
                raise Violation("two batches received generators in the same state")
        ctx.note_case(case, len(res) > 1 or case["mode"] != "all",
                      ["rw:" + case["mode"], "rw:batches=%s" % ("1" if len(res) == 1 else ">1"),
                       "rw:n_batches=None" if case["n_batches"] is None else "rw:n_batches=int"])
        del pcase

    return body


@st.composite
def rw_cases(draw):
    n_file = draw(st.integers(1, 40))
    mode = draw(st.sampled_from(["all", "n", "idx"]))
    case = {"n_file": n_file, "mode": mode, "pool_size": draw(st.integers(0, 8)),
            "n_batches": draw(st.one_of(st.none(), st.integers(1, n_file + 4))),
            "rng_seed": draw(st.one_of(st.none(), st.integers(0, 2**31)))}
    if mode == "n":
        case["n_prior"] = draw(st.integers(1, n_file))
    if mode == "idx":
        case["idx"] = draw(st.lists(st.integers(0, n_file - 1), min_size=1, max_size=n_file + 3))
    return case


# ----------------------------------------------------------------------------- the partition as the samplers use it
@st.composite
def sampler_cases(draw):
    from vt import rej
    from vt.checks import c06

    method = draw(st.sampled_from(["marginal", "rejection", "iterative"]))
    if method == "iterative":
        case = draw(c06.iter_cases(max_n=60))
        case["return_logprobs"] = False
        if draw(st.booleans()):
            # several growth iterations: a small first batch and few acceptances
            case["init_batch"] = draw(st.integers(1, 4))
            case["profile"] = draw(st.sampled_from(["spike", "last_only", "range"]))
            case["n_requested"] = draw(st.integers(2, 6))
    else:
        case = draw(rej.rejection_cases(max_n=60))
    case["method"] = method
    case["path"] = draw(st.sampled_from(["cache", "file"]))
    case["pool_order"] = None
    case["steer"] = None
    if method == "iterative" and case["max_prior"] is not None:
        case["init_batch"] = min(case["init_batch"], case["max_prior"])
    return case


def sampler_body_factory(ctx):
    import thejoker as tj
    from vt import fakes, rej
    from vt.checks import c06
    from vt.recgen import RecordingPool

    def body(case):
        n, method = case["n"], case["method"]
        lls = rej.profile_of(case)
        cls = ["use:" + method, "use:path:" + case["path"], "use:n_linear=%d" % case["n_linear"]]
        if method == "marginal":
            helper = fakes.ScriptedHelper(lls)
            lib = fakes.scripted_library(n, units=case.get("lib_units"))
            pool = RecordingPool(size=case.get("pool_size", 1))
            joker = fakes.install(tj.TheJoker(rej._dummy_prior(), pool=pool), helper)
            src = lib
            if case["path"] == "file":
                src = os.path.join(ctx.workdir, "c16lib.hdf5")
                lib.write(src, overwrite=True)
            with ctx.sut("marginal_ln_likelihood"):
                ll = np.asarray(joker.marginal_ln_likelihood(None, src, n_batches=case["n_batches"]))
            asked = np.concatenate(helper.ll_calls) if helper.ll_calls else np.array([], dtype=int)
            if not np.array_equal(asked, np.arange(n)):
                raise Violation("the batches evaluated by marginal_ln_likelihood do not cover the %d library rows exactly "
                                "once, in order" % n, asked=asked[:30])
            if ll.shape != (n,) or not np.array_equal(ll, lls):
                raise Violation("marginal_ln_likelihood: value i is not the likelihood of library row i", got=ll[:12], want=lls[:12])
            nb = len(helper.ll_calls)
            ctx.note_case(case, nb > 1, cls + ["use:batches=%s" % ("1" if nb == 1 else ">1")])
            return
        if method == "rejection":
            with ctx.sut("rejection_sample"):
                R = rej.run_rejection(ctx, case, lls=lls)
            order = rej.evaluation_order(case, R["rg"])
        else:
            it = dict(n_requested_samples=case["n_requested"], init_batch_size=case["init_batch"],
                      growth_factor=case["growth"], max_prior_samples=case["max_prior"])
            # the sampler announces every round on its logger ("iteration i, computing N likelihoods"): N is the range it
            # requests from the workers in that round
            import logging as _logging
            import re as _re
            announced = []

            class _Grab(_logging.Handler):
                def emit(self, record):
                    m_ = _re.search(r"iteration (\d+), computing (\d+) likelihoods", record.getMessage())
                    if m_:
                        announced.append(int(m_.group(2)))

            lg_ = _logging.getLogger("thejoker")
            h_, lvl_ = _Grab(level=1), lg_.level
            others_ = [(x, x.level) for x in lg_.handlers]
            for x, _l in others_:
                x.setLevel(100)         # (nothing of this goes to the console)
            lg_.addHandler(h_)
            lg_.setLevel(1)
            try:
                R = rej.run_rejection(ctx, case, lls=lls, iterative=it, order_fn=c06.iter_order)
            except Violation:
                raise
            except Exception as e:
                limit = n if case["max_prior"] is None else min(n, case["max_prior"])
                if case["init_batch"] <= limit and bool(np.all(np.isfinite(lls))):
                    raise Violation("iterative_rejection_sample raised %s for a large-enough library with finite likelihoods "
                                    "(its batches did not line up): %s" % (type(e).__name__, str(e)[:200]))
                ctx.classes["use:iterative raised %s (library too small or non-finite likelihoods)" % type(e).__name__] += 1
                return
            finally:
                lg_.removeHandler(h_)
                lg_.setLevel(lvl_)
                for x, l_ in others_:
                    x.setLevel(l_)
            order = c06.iter_order(case, R["rg"])
            if case["path"] != "mem" and announced:
                rounds = [sum(x for x in mc["sizes"] if x is not None) for mc in R["pool"].map_calls
                          if mc["func"] == "marginal_ln_likelihood_worker"]
                if len(rounds) == len(announced) and rounds != announced:
                    raise Violation("iterative_rejection_sample: the batches handed to the workers in a round do not add up to the "
                                    "number of prior samples the sampler set out to evaluate in that round",
                                    announced_per_round=announced, rows_in_batches_per_round=rounds)
                if len(rounds) == len(announced):
                    ctx.classes["use:iterative rounds checked against the announced counts"] += 1
        out, rg, helper, lib = R["res"], R["rg"], R["helper"], R["lib"]
        un = rg.calls("uniform")
        if not un:
            raise Violation("no uniform draw was made")
        n_eval = int(np.size(un[-1]["out"]))
        if method == "rejection" and n_eval != len(order):
            raise Violation("rejection_sample evaluated %d prior samples, %d were requested (the batches do not add up to "
                            "the requested range)" % (n_eval, len(order)))
        asked = np.concatenate(helper.ll_calls) if helper.ll_calls else np.array([], dtype=int)
        if len(asked) != n_eval or not np.array_equal(asked, order[:n_eval]):
            raise Violation("%s: the batches handed to the workers do not cover the evaluated prior samples exactly once, "
                            "in order (%d evaluated)" % (method, n_eval), asked=asked[:30], order=np.asarray(order)[:30])
        ev = np.asarray(order)[:n_eval]
        if not np.isfinite(lls[ev]).any():
            ctx.classes["use:outside domain (no finite likelihood)"] += 1
            return
        uu = np.asarray(un[-1]["out"], dtype=float)
        lim = case["max_post"] if method == "rejection" else case["n_requested"]
        acc = ev[rej.accepted_from(lls[ev], uu, lim)]
        if not isinstance(out, tj.JokerSamples):
            raise Violation("%s returned a %s" % (method, type(out).__name__))
        given = np.concatenate(helper.post_calls) if helper.post_calls else np.array([], dtype=int)
        if not np.array_equal(given, acc):
            raise Violation("%s: the batches of the linear-parameter step do not cover the accepted samples exactly once, "
                            "in order" % method, given=given[:30], accepted=acc[:30])
        rej.check_rows(out, lib, acc, case["n_linear"])
        nb = len(helper.post_calls)
        ctx.note_case(case, nb > 1 or len(helper.ll_calls) > 1,
                      cls + ["use:linear-step batches=%s" % ("1" if nb <= 1 else ">1"),
                             "use:likelihood rounds=%s" % ("1" if len(un) == 1 else ">1"),
                             "use:likelihood batches=%s" % ("1" if len(helper.ll_calls) <= 1 else ">1")])

    return body


def run(ctx):
    body = body_factory(ctx)
    NT, NB = ctx.pick((160, 200), (448, 560))
    starts = (0, 1, 7, 1103)

    def box():
        for nt in range(1, NT + 1):
            for nb in range(1, NB + 1):
                for s in starts:
                    for arr in (False, True):
                        yield {"n_tasks": nt, "n_batches": nb, "start": s, "arr": arr}

    ctx.enumerate("box", box(), body)
    ctx.exhaustive = True
    ctx.extra["exhaustive_box"] = "n_tasks 1..%d x n_batches 1..%d x start_idx %s x {range, array}" % (NT, NB, list(starts))

    @st.composite
    def big_range(draw):
        nt = draw(st.integers(1, 10**9))
        # the loop is O(n_batches): keep n_batches small, or larger than n_tasks (single-batch fallback)
        nb = draw(st.one_of(st.integers(1, min(nt, 3000)), st.integers(nt + 1, 10**12)))
        return {"n_tasks": nt, "n_batches": nb, "start": draw(st.integers(0, 10**9)), "arr": False,
                "np_ints": draw(st.booleans())}

    big_arr = st.builds(
        lambda nt, nb, s: {"n_tasks": nt, "n_batches": nb, "start": s, "arr": True},
        st.integers(1, 200000), st.integers(1, 3000), st.integers(0, 50000))
    ctx.search("large", st.one_of(big_range(), big_arr), body, quick=400, thorough=8000)
    ctx.search("run_worker", rw_cases(), run_worker_body_factory(ctx), quick=300, thorough=6000)
    ctx.search("samplers", sampler_cases(), sampler_body_factory(ctx), quick=400, thorough=8000)

    @st.composite
    def large_sampler_cases(draw):
        from vt import rej
        case = draw(rej.large_cases())
        case["method"] = draw(st.sampled_from(["marginal", "rejection", "rejection"]))
        return case

    ctx.search("large_library", large_sampler_cases(), sampler_body_factory(ctx), quick=10, thorough=80)
