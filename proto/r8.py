# recon: C11 logp decomposition
from ref import *
from scipy.stats import norm, beta, lognorm
r = np.random.default_rng(0); n=6
t = 56000 + np.sort(r.uniform(0, 300, n))
data = tj.RVData(t=t, rv=r.normal(0,5,n)*u.km/u.s, rv_err=r.uniform(0.1,0.5,n)*u.km/u.s)
with pm.Model() as model:
    s = xu.with_unit(pm.Lognormal('s', 0., 0.5), u.km/u.s)
    prior = tj.JokerPrior.default(P_min=2*u.day, P_max=500*u.day, sigma_K0=30*u.km/u.s, sigma_v=[100*u.km/u.s, 0.2*u.km/u.s/u.day], poly_trend=2, s=s)
joker = tj.TheJoker(prior)
smp = tj.JokerSamples(poly_trend=2, t_ref=data.t_ref)
smp['P']=[13.7]*u.day; smp['e']=[0.3]; smp['omega']=[1.1]*u.rad; smp['M0']=[2.2]*u.rad; smp['s']=[0.7]*u.km/u.s
smp['K']=[4.2]*u.km/u.s; smp['v0']=[1.5]*u.km/u.s; smp['v1']=[0.01]*u.km/u.s/u.day
with prior.model: init = joker.setup_mcmc(data, smp)
m = prior.model
print("value vars", [v.name for v in m.value_vars])
import pytensor
outs = m.replace_rvs_by_values([m['model_rv'], m['logp'], m['ln_likelihood'], m['ln_prior']])
lp_nojac = m.logp(jacobian=False); lp_jac = m.logp(jacobian=True)
f = m.compile_fn(outs + [lp_nojac, lp_jac], point_fn=True)
def point(P,e,om,M0,s,K,v0,v1):
    pt = dict(m.initial_point())
    pt['s_log__']=np.log(s); pt['e_logodds__']=np.log(e/(1-e))
    pt['__omega_angle1']=np.sin(om); pt['__omega_angle2']=np.cos(om); pt['__M0_angle1']=np.sin(M0); pt['__M0_angle2']=np.cos(M0)
    pt['P']=P; pt['K']=K; pt['v0']=v0; pt['v1']=v1
    return pt
res=[]
for k in range(8):
    P=10**r.uniform(0.5,2.5); e=r.uniform(0.01,0.9); om=r.uniform(-3,3); M0=r.uniform(-3,3); s_=10**r.uniform(-1,0.5); K=r.normal(0,10); v0=r.normal(0,5); v1=r.normal(0,.01)
    rv, logp_det, lnl, lnp, nojac, jac = f(point(P,e,om,M0,s_,K,v0,v1))
    M = design(data._t_bmjd, data._t_ref_bmjd, np.zeros(n,int), 2, P,e,om,M0)
    rv_ref = M@np.array([K,v0,v1])
    lnN = norm.logpdf(data.rv.value, rv_ref, np.sqrt(data.rv_err.value**2+s_**2)).sum()
    sigK = min(30.*(P/365.25)**(-1/3)/np.sqrt(1-e**2), 500.)
    lnprior_decl = (-np.log(P) - np.log(np.log(250.))) + beta.logpdf(e, 0.867, 3.03) + lognorm.logpdf(s_, 0.5, scale=1.) + norm.logpdf(K,0,sigK) + norm.logpdf(v0,0,100.) + norm.logpdf(v1,0,0.2)
    lnprior_code = (-P - np.log(np.log(250.))) + beta.logpdf(e, 0.867, 3.03) + lognorm.logpdf(s_, 0.5, scale=1.) + norm.logpdf(K,0,sigK) + norm.logpdf(v0,0,100.) + norm.logpdf(v1,0,0.2)
    res.append((np.abs(rv-rv_ref).max(), nojac - (lnprior_decl+lnN), nojac - (lnprior_code+lnN), logp_det - jac, lnl - norm.logpdf(data.rv.value, rv_ref, data.rv_err.value).sum(), lnp - (logp_det - lnl)))
for x in res: print(["%.6g"%v for v in x])
