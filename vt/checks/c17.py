"""C17 - sample-table operations preserve the physical orbit and its metadata."""
import collections
import math

import numpy as np
from hypothesis import strategies as st

from vt import gens
from vt import oracle_gauss as og
from vt.runner import Violation

RULE = ("Tables of 1-40 rows with K of either sign (incl. 0 and -0.0), angles in [-4pi, 4pi] in rad or deg, P in d / yr / "
        "h, e in [0, 0.95], trend terms and offsets, optional ln_prior / ln_likelihood, metadata (t_ref None or a Time, "
        "poly_trend 1-3, n_offsets 0-2), every column in a random equivalent unit; index expressions int / numpy int / "
        "slice / mask / index array; phases in [-4pi, 4pi]. Oracle: wrap_K -> K>=0, RV curve (independent Kepler solve, "
        "12 generated times) unchanged, omega moved by pi (mod 2pi) exactly where K<0 and bit-identical elsewhere, all "
        "other columns bit-identical; get_t0 / get_time_with_phase -> mean anomaly at the returned time == requested "
        "phase (mod 2pi); pack->unpack -> same names, physically equal values, equivalent units (identical when the "
        "table's own units are requested); indexing / copy / mean / std / median_period keep t_ref, poly_trend, "
        "n_offsets and units; median_period is a member row whose P is a median. Non-trivial: >=2 rows with at least "
        "one negative K, or a non-default unit / metadata."
        " Also: single-precision columns, tied periods, empty selections (slice / mask / index array) and their copies, unpack with a units mapping longer than the array, mean/std must keep the table's own units exactly.")
SHARDS = {"quick": 2, "thorough": 16}
BUDGET = {"quick": 70, "thorough": 700}


@st.composite
def tables(draw, max_n=40):
    n = draw(st.one_of(st.integers(1, 12), st.integers(1, max_n)))
    poly = draw(st.integers(1, 3))
    noff = draw(st.integers(0, 2))
    un = {"P": draw(st.sampled_from(["d", "yr", "h"])), "omega": draw(st.sampled_from(og.ANG_UNITS)),
          "M0": draw(st.sampled_from(og.ANG_UNITS)), "s": draw(st.sampled_from(og.VEL_UNITS)),
          "K": draw(st.sampled_from(og.VEL_UNITS)), "v0": draw(st.sampled_from(og.VEL_UNITS))}
    for i in range(1, poly):
        un["v%d" % i] = "%s/%s%s" % (draw(st.sampled_from(og.VEL_UNITS)), draw(st.sampled_from(["d", "yr"])), "" if i == 1 else "^%d" % i)
    for i in range(noff):
        un["dv0_%d" % (i + 1)] = draw(st.sampled_from(og.VEL_UNITS))
    rows = []
    for _ in range(n):
        r = {"P": gens.rounded(draw(gens.logfloat(0.1, 1e4)), 9), "e": gens.rounded(draw(gens.fl(0, 0.95)), 9),
             "omega": gens.rounded(draw(gens.fl(-4 * math.pi, 4 * math.pi)), 9),
             "M0": gens.rounded(draw(gens.fl(-4 * math.pi, 4 * math.pi)), 9),
             "s": gens.rounded(draw(gens.fl(0, 3)), 6),
             "K": draw(st.one_of(st.sampled_from([0.0, -0.0]), gens.fl(-50, 50).map(lambda x: gens.rounded(x, 9)))),
             "v0": gens.rounded(draw(gens.fl(-100, 100)), 9)}
        for i in range(1, poly):
            r["v%d" % i] = gens.rounded(draw(gens.fl(-1, 1)) * 10.0 ** (-2 * i), 9)
        for i in range(noff):
            r["dv0_%d" % (i + 1)] = gens.rounded(draw(gens.fl(-5, 5)), 9)
        rows.append(r)
    # repeated periods (several linear draws per nonlinear sample, concatenated tables): ties, possibly at the median
    for _ in range(draw(st.sampled_from([0, 0, 1, 2, n]))):
        i_, j_ = draw(st.integers(0, n - 1)), draw(st.integers(0, n - 1))
        rows[j_]["P"] = rows[i_]["P"]
    return {"n": n, "poly": poly, "noff": noff, "units": un, "rows": rows,
            "logprobs": draw(st.booleans()), "t_ref": draw(st.one_of(st.none(), gens.fl(50000.0, 59000.0).map(lambda x: gens.rounded(x, 9)))),
            "phase": gens.rounded(draw(gens.fl(-4 * math.pi, 4 * math.pi)), 9), "phase_unit": draw(st.sampled_from(og.ANG_UNITS)),
            "index_seed": draw(st.integers(0, 10**6)), "t_ref_scale": draw(st.sampled_from(["tcb", "tcb", "utc", "tt", "tdb"])),
            "times": [gens.rounded(draw(gens.fl(-300, 300)), 6) for _ in range(12)],
            # columns held in single precision (a library drawn with dtype=float32 next to double-precision columns)
            "f4": draw(st.one_of(st.just([]), st.just([]), st.lists(st.sampled_from(["P", "e", "s", "v0"]), unique=True, max_size=4)))}


CANON = {"P": "d", "omega": "rad", "M0": "rad", "s": "km/s", "K": "km/s", "v0": "km/s"}


def canon_unit(name):
    if name in CANON:
        return CANON[name]
    if name.startswith("dv0"):
        return "km/s"
    i = int(name[1:])
    return "km/s/d" if i == 1 else "km/s/d^%d" % i


def build(case):
    from astropy.time import Time

    import thejoker as tj

    t_ref = None if case["t_ref"] is None else Time(case["t_ref"], format="mjd", scale="tcb")
    if t_ref is not None and case.get("t_ref_scale", "tcb") != "tcb":
        t_ref = getattr(t_ref, case["t_ref_scale"])   # the same instant on another time scale
    s = tj.JokerSamples(poly_trend=case["poly"], n_offsets=case["noff"], t_ref=t_ref)
    names = ["P", "e", "omega", "M0", "s", "K"] + ["v%d" % i for i in range(case["poly"])] + \
        ["dv0_%d" % (i + 1) for i in range(case["noff"])]
    for nm in names:
        col = np.array([r[nm] for r in case["rows"]], dtype=float)
        if nm != "e":
            col = np.asarray(og.conv(col, canon_unit(nm), case["units"][nm]), dtype=float)
        if nm in case.get("f4", ()):
            col = col.astype(np.float32)
        s[nm] = col if nm == "e" else col * og.unit(case["units"][nm])
    if case["logprobs"]:
        s["ln_prior"] = -np.arange(case["n"], dtype=float) * 0.5
        s["ln_likelihood"] = np.cos(np.arange(case["n"], dtype=float))
    return s, names


def meta_of(x):
    tr = x.t_ref
    return (None if tr is None else float(tr.tcb.mjd), int(x.poly_trend), int(x.n_offsets))


def rv_curve(s, i, times, t_ref):
    import astropy.units as u

    P = s["P"][i].to_value(u.day)
    e = float(s["e"][i])
    om = s["omega"][i].to_value(u.rad)
    M0 = s["M0"][i].to_value(u.rad)
    K = s["K"][i].to_value(u.km / u.s)
    z = og.kepler_z_independent(np.asarray(times, dtype=float) + t_ref, P, e, om, M0, t_ref)
    return K * z


def body_factory(ctx):
    import astropy.units as u
    from astropy.time import Time

    import thejoker as tj

    def body(case):
        with ctx.sut("JokerSamples construction"):
            s, names = build(case)
        n = case["n"]
        m0 = meta_of(s)
        units0 = {nm: s[nm].unit for nm in s.par_names}
        allnames = list(s.par_names)
        K0 = s["K"].to_value(u.km / u.s).copy()
        neg = K0 < 0
        f4 = set(case.get("f4", ()))
        for nm in f4:
            if s[nm].dtype != np.float32:
                f4 = set()      # the table does not keep single precision: nothing special to expect
                break
        # ------------------------------------------------------------ indexing / copy / reductions keep metadata
        g = np.random.default_rng(case["index_seed"])
        k = int(g.integers(0, n))
        exprs = [("int", k, [k]), ("np.int64", np.int64(k), [k]), ("slice", slice(k // 2, n), list(range(k // 2, n))),
                 ("mask", None, None), ("index_array", None, None),
                 ("int -1", -1, [n - 1]), ("np.int64 -1", np.int64(-1), [n - 1]), ("int -n", -n, [0]),
                 ("negative slice", slice(-2, None), list(range(n))[-2:])]
        mask = g.random(n) < 0.6
        if not mask.any():
            mask[k] = True
        ia = g.integers(0, n, size=int(g.integers(1, n + 1)))
        exprs[3] = ("mask", mask, list(np.where(mask)[0]))
        exprs[4] = ("index_array", ia, list(ia))
        for kind, key, sel in exprs:
            if len(sel) == 0:
                continue
            with ctx.sut("samples[%s]" % kind):
                sub = s[key]
            if meta_of(sub) != m0:
                raise Violation("samples[%s] lost metadata" % kind, before=m0, after=meta_of(sub))
            if list(sub.par_names) != allnames or len(sub) != len(sel):
                raise Violation("samples[%s]: wrong columns or length" % kind, names=list(sub.par_names), n=len(sub))
            for nm in allnames:
                if sub[nm].unit != units0[nm]:
                    raise Violation("samples[%s] changed the unit of %s" % (kind, nm))
                if not np.array_equal(np.atleast_1d(sub[nm].value), np.asarray(s[nm].value)[sel]):
                    raise Violation("samples[%s] does not hold the requested rows of %s" % (kind, nm))
        for kind, key in (("empty slice", slice(k, k)), ("all-False mask", np.zeros(n, dtype=bool)),
                          ("empty index array", np.zeros(0, dtype=int))):
            with ctx.sut("samples[%s]" % kind):
                sub = s[key]
                subc = sub.copy()
            for what, x in ((kind, sub), ("copy() of " + kind, subc)):
                if len(x) != 0:
                    raise Violation("samples[%s] selects no row but the result has %d" % (what, len(x)))
                if meta_of(x) != m0 or list(x.par_names) != allnames:
                    raise Violation("samples[%s] (no row selected) lost metadata or columns" % what, before=m0, after=meta_of(x),
                                    names=list(x.par_names), expected=allnames)
                for nm in allnames:
                    if x[nm].unit != units0[nm]:
                        raise Violation("samples[%s] (no row selected) changed the unit of %s" % (what, nm))
        with ctx.sut("copy()"):
            c = s.copy()
        if meta_of(c) != m0 or list(c.par_names) != allnames:
            raise Violation("copy() lost metadata or columns", before=m0, after=meta_of(c))
        for nm in allnames:
            if c[nm].unit != units0[nm] or not np.array_equal(c[nm].value, s[nm].value):
                raise Violation("copy() changed column %s" % nm)
        for fname, f in (("mean", np.mean), ("std", np.std)):
            with ctx.sut(fname + "()"):
                r = getattr(s, fname)()
            if meta_of(r) != m0 or list(r.par_names) != allnames or len(r) != 1:
                raise Violation("%s() lost metadata / columns" % fname, before=m0, after=meta_of(r))
            for nm in allnames:
                if r[nm].unit != units0[nm]:
                    raise Violation("%s() changed the unit of %s" % (fname, nm), table_unit=str(units0[nm]), result_unit=str(r[nm].unit))
                want = f(np.asarray(s[nm].value, dtype=float))
                # (single precision: relative to the largest entry, and nothing below the smallest normal float32 counts)
                atol = max(1e-5 * float(np.max(np.abs(np.asarray(s[nm].value, dtype=float)))), 1e-36) if nm in f4 else 1e-300
                if not np.isclose(float(r[nm].to_value(units0[nm])[0]), want, rtol=1e-4 if nm in f4 else 1e-10, atol=atol):
                    raise Violation("%s() of column %s is wrong" % (fname, nm), got=float(r[nm].value[0]), want=float(want))
        with ctx.sut("median_period()"):
            mp = s.median_period()
        if meta_of(mp) != m0 or len(mp) != 1 or list(mp.par_names) != allnames:
            raise Violation("median_period() lost metadata / columns", before=m0, after=meta_of(mp))
        member = [i for i in range(n) if all(np.atleast_1d(mp[nm].value)[0] == np.asarray(s[nm].value)[i] and mp[nm].unit == units0[nm]
                                             for nm in allnames)]
        if not member:
            raise Violation("median_period() is not a member row of the table")
        Ps = np.sort(s["P"].to_value(u.day))
        Pm = mp["P"].to_value(u.day)[0]
        if Pm not in (Ps[(n - 1) // 2], Ps[n // 2]):
            raise Violation("median_period() row does not have a median period", P=Pm, sorted_P=Ps[:12])
        # ------------------------------------------------------------ pack / unpack
        with ctx.sut("pack(nonlinear_only=False)"):
            packed, pun = s.pack(nonlinear_only=False)
            back = tj.JokerSamples.unpack(packed, pun, t_ref=s.t_ref, poly_trend=case["poly"], n_offsets=case["noff"])
        if list(back.par_names) != allnames or meta_of(back) != m0:
            raise Violation("pack/unpack changed names or metadata", names=list(back.par_names))
        for nm in allnames:
            if not back[nm].unit.is_equivalent(units0[nm]):
                raise Violation("pack/unpack: unit of %s not equivalent" % nm)
            if not np.allclose(back[nm].to_value(units0[nm]), s[nm].value, rtol=1e-6 if nm in f4 else 1e-12, atol=1e-300):
                raise Violation("pack/unpack changed the values of %s" % nm)
        with ctx.sut("pack(units=own units)"):
            packed2, pun2 = s.pack(units=dict(units0), names=allnames)
            back2 = tj.JokerSamples.unpack(packed2, pun2, t_ref=s.t_ref, poly_trend=case["poly"], n_offsets=case["noff"])
        for nm in allnames:
            if back2[nm].unit != units0[nm] or not np.array_equal(back2[nm].value, s[nm].value):
                raise Violation("pack/unpack with the table's own units is not the identity for %s" % nm)
        # units / names given in an order of the caller's choice: the returned units must describe the returned columns
        perm = list(g.permutation(len(allnames)))
        names_p = [allnames[i] for i in perm[:max(1, len(perm) - int(g.integers(0, 2)))]]
        user_units = {nm: units0[nm] for nm in reversed(allnames) if g.random() < 0.6}
        with ctx.sut("pack(units=<user dict>, names=<user order>)"):
            packed4, pun4 = s.pack(units=dict(user_units), names=list(names_p))
            back4 = tj.JokerSamples.unpack(packed4, pun4, t_ref=s.t_ref, poly_trend=case["poly"], n_offsets=case["noff"])
        if list(back4.par_names) != names_p:
            raise Violation("pack/unpack with a caller-chosen column order: columns come back under other names",
                            asked=names_p, got=list(back4.par_names), user_units=[str(k_) for k_ in user_units])
        for nm in names_p:
            if not back4[nm].unit.is_equivalent(units0[nm]) or not np.allclose(
                    back4[nm].to_value(units0[nm]), s[nm].value, rtol=1e-6 if nm in f4 else 1e-12, atol=1e-300):
                raise Violation("pack/unpack with a caller-chosen column order changed the values of %s" % nm,
                                asked=names_p, user_units=[str(k_) for k_ in user_units])
        with ctx.sut("pack()"):
            p3, u3 = s.pack()
        if list(u3.keys()) != ["P", "e", "omega", "M0", "s"] or p3.shape != (n, 5):
            raise Violation("default pack() must give the five nonlinear columns", keys=list(u3.keys()))
        # a units mapping that describes more columns than the array has: the code takes the leading entries; a result,
        # if one is returned, must hold the packed rows under the leading names
        lin = [nm for nm in allnames if nm not in u3 and nm not in ("ln_prior", "ln_likelihood")]
        ext = collections.OrderedDict(u3)
        for nm in lin[:1 + int(g.integers(0, len(lin)))]:
            ext[nm] = units0[nm]
        try:
            b5 = tj.JokerSamples.unpack(p3, ext, t_ref=s.t_ref, poly_trend=case["poly"], n_offsets=case["noff"])
        except (ValueError, TypeError):
            b5 = None       # refusing the longer mapping would be a clean answer too
        if b5 is not None:
            if list(b5.par_names) != list(u3.keys()) or len(b5) != n:
                raise Violation("unpack of %d nonlinear-only rows with a %d-entry units mapping gives other columns / rows" % (n, len(ext)),
                                names=list(b5.par_names), rows=len(b5), n=n, units=[str(k_) for k_ in ext])
            for j, nm in enumerate(u3):
                if not np.array_equal(b5[nm].to_value(u3[nm]), p3[:, j]):
                    raise Violation("unpack with a longer units mapping changed the values of %s" % nm)
        if not np.allclose(p3[:, 0], s["P"].to_value(u.day), rtol=1e-14) or not np.allclose(p3[:, 2], s["omega"].to_value(u.rad), rtol=1e-14, atol=1e-300):
            raise Violation("default pack() does not convert to (day, rad)")
        # ------------------------------------------------------------ times of given phase
        phase = case["phase"] * og.unit("rad")
        phase_q = phase.to(og.unit(case["phase_unit"]))
        tref_arg = None
        tref_val = case["t_ref"]
        if case["t_ref"] is None:
            tref_val = 55555.25
            tref_arg = Time(tref_val, format="mjd", scale="tcb")
            if case.get("t_ref_scale", "tcb") != "tcb":
                tref_arg = getattr(tref_arg, case["t_ref_scale"])
        with ctx.sut("get_time_with_phase / get_t0"):
            tph = s.get_time_with_phase(phase_q, t_ref=tref_arg)
            t0 = s.get_t0(t_ref=tref_arg)
        tr = Time(tref_val, format="mjd", scale="tcb")
        P_d = s["P"].to_value(u.day)
        M0 = s["M0"].to_value(u.rad)
        for which, tt, ph in (("get_time_with_phase", tph, case["phase"]), ("get_t0", t0, 0.0)):
            dt = np.atleast_1d((tt - tr).to_value(u.day))
            if dt.shape != (n,):
                raise Violation("%s returned %d times for %d samples" % (which, dt.size, n))
            M = 2 * np.pi * dt / P_d - M0
            d = np.abs(np.mod(M - ph + np.pi, 2 * np.pi) - np.pi)
            tol = 1e-7 + 2 * np.pi * 2e-11 / P_d + (1e-4 if "P" in f4 else 0.0)
            if not np.all(d <= tol):
                j = int(np.argmax(d - tol))
                raise Violation("%s: mean anomaly at the returned time is not the requested phase" % which,
                                row=case["rows"][j], phase=ph, mean_anomaly_minus_phase_mod_2pi=float(d[j]))
        # ---- the same object asked again after something changed: results must follow the current state
        if case["t_ref"] is None:
            tr2 = Time(tref_val + 17.25, format="mjd", scale="tcb")
            with ctx.sut("get_t0 with another t_ref on the same object"):
                t0b = s.get_t0(t_ref=tr2)
            dt = np.atleast_1d((t0b - tr2).to_value(u.day))
            d = np.abs(np.mod(2 * np.pi * dt / P_d - M0 + np.pi, 2 * np.pi) - np.pi)
            if not np.all(d <= 1e-7 + 2 * np.pi * 2e-11 / P_d + (1e-4 if "P" in f4 else 0.0)):
                raise Violation("get_t0 called again with another reference epoch still answers for the first one",
                                worst=float(d.max()))
        M0_new = np.mod(M0 + 1.0, 2 * np.pi)
        with ctx.sut("re-assigning M0 and asking again"):
            s["M0"] = (M0_new * u.rad).to(units0["M0"])
            t0c = s.get_t0(t_ref=tref_arg)
        dt = np.atleast_1d((t0c - tr).to_value(u.day))
        d = np.abs(np.mod(2 * np.pi * dt / P_d - M0_new + np.pi, 2 * np.pi) - np.pi)
        if not np.all(d <= 1e-7 + 2 * np.pi * 2e-11 / P_d + (1e-4 if "P" in f4 else 0.0)):
            raise Violation("get_t0 after re-assigning M0 does not use the new values", worst=float(d.max()))
        with ctx.sut("restoring M0"):
            s["M0"] = (M0 * u.rad).to(units0["M0"])
        # ------------------------------------------------------------ wrap_K
        before = {nm: (s[nm].value.copy(), s[nm].unit) for nm in allnames}
        tref_c = 55000.0
        curves = [rv_curve(s, i, case["times"], tref_c) for i in range(n)]
        # the orbit objects built by the table itself, before and after (same instance: nothing may be stale)
        tt_orb = None
        if s.t_ref is not None:
            tt_orb = Time(np.asarray(case["times"][:4]) + tref_c, format="mjd", scale="tcb")
            with ctx.sut("get_orbit before wrap_K"):
                orb_before = [s.get_orbit(i).radial_velocity(tt_orb).to_value(u.km / u.s) for i in range(min(n, 4))]
        with ctx.sut("wrap_K()"):
            w = s.wrap_K()
        if tt_orb is not None:
            with ctx.sut("get_orbit after wrap_K"):
                orb_after = [w.get_orbit(i).radial_velocity(tt_orb).to_value(u.km / u.s) for i in range(min(n, 4))]
            for i in range(min(n, 4)):
                if not (np.max(np.abs(orb_after[i] - orb_before[i])) <= 1e-8 * (1 + abs(K0[i]))):
                    raise Violation("get_orbit(%d) gives another RV curve after wrap_K on the same table" % i,
                                    row=case["rows"][i], before=orb_before[i], after=orb_after[i])
        if meta_of(w) != m0 or list(w.par_names) != allnames:
            raise Violation("wrap_K lost metadata / columns")
        Kw = w["K"].to_value(u.km / u.s)
        if np.any(Kw < 0) or np.any(np.signbit(Kw) & (Kw != 0)):
            raise Violation("wrap_K left a negative K", K=Kw[:12])
        if not np.array_equal(np.abs(Kw), np.abs(K0)):
            raise Violation("wrap_K changed |K|")
        for nm in allnames:
            if w[nm].unit != before[nm][1]:
                raise Violation("wrap_K changed the unit of %s" % nm)
            if nm in ("K", "omega"):
                continue
            if not np.array_equal(w[nm].value, before[nm][0]):
                raise Violation("wrap_K changed column %s" % nm)
        om_b = before["omega"][0]
        om_a = w["omega"].value
        if not np.array_equal(om_a[~neg], om_b[~neg]):
            raise Violation("wrap_K changed omega of rows whose K was not negative")
        if neg.any():
            to_rad = float(og.conv(1.0, case["units"]["omega"], "rad"))
            d = np.abs(np.mod((om_a[neg] - om_b[neg]) * to_rad - np.pi + np.pi, 2 * np.pi) - np.pi)
            if not np.all(d <= 1e-9):
                raise Violation("wrap_K did not move omega by pi (mod 2 pi) where K was negative", delta=d[:8])
        for i in range(n):
            after = rv_curve(w, i, case["times"], tref_c)
            if not (np.max(np.abs(after - curves[i])) <= 1e-9 * (1 + abs(K0[i]))):
                raise Violation("wrap_K changed the RV curve of row %d" % i, row=case["rows"][i],
                                max_diff=float(np.max(np.abs(after - curves[i]))))
        nondefault = any(case["units"][k_] != canon_unit(k_) for k_ in case["units"]) or case["t_ref"] is not None or case["poly"] > 1 or case["noff"] > 0
        ctx.note_case(case, n >= 2 and (bool(neg.any()) or nondefault),
                      ["n=%s" % ("1" if n == 1 else ">1"), "negK" if neg.any() else "no_negK", "poly=%d" % case["poly"],
                       "noff=%d" % case["noff"], "t_ref:%s" % ("None" if case["t_ref"] is None else "Time"),
                       "omega:" + case["units"]["omega"], "logprobs=%s" % case["logprobs"]])

    return body


def run(ctx):
    ctx.search("tables", tables(max_n=40 if ctx.quick else 120), body_factory(ctx), quick=700, thorough=20000)
