"""C06 - reported ln_prior / ln_likelihood stay attached to their own sample."""
import numpy as np
from hypothesis import strategies as st

from vt import rej
from vt.runner import Violation

RULE = ("Scripted libraries whose ln_prior is an injective function of the row number (-(i+0.25)) and whose "
        "likelihood profile is drawn per case; all option combinations of rejection_sample (return_logprobs, "
        "return_all_logprobs, n_prior_samples, max_posterior_samples, n_linear_samples 1-3, randomize_prior_order, "
        "in-memory / cache / file, n_batches, pool size and completion order) and of iterative_rejection_sample "
        "(n_requested, init_batch_size, growth_factor, max_prior_samples). Oracle: every returned row is identified "
        "through its period; its ln_prior must be a plain float64 equal to that row's stored value, its ln_likelihood "
        "equal to that row's likelihood, and the second return value equal to the likelihoods of the evaluated rows "
        "in evaluation order. (real kernel) generated problems incl. rows where the K-variance cap binds: every returned "
        "row's ln_likelihood == an independent marginal_ln_likelihood of that row, ln_prior == the stored value. Non-trivial: >=2 returned rows together with a shuffle, a truncation, "
        "n_linear_samples>1 or a multi-batch file path."
        " Also: additive likelihood constants, -inf ln_prior rows, library objects with a previous life, and a 'large' search (16k-131k rows in 2-3 batches, block-wise readers).")
SHARDS = {"quick": 4, "thorough": 16}
BUDGET = {"quick": 70, "thorough": 800}


def check_logprobs(out, lib, lls, n_linear):
    rows = np.rint(np.asarray(out["P"].value)).astype(int) - 1
    for nm in ("ln_prior", "ln_likelihood"):
        if nm not in out.par_names:
            raise Violation("return_logprobs=True but column %s is missing" % nm, columns=list(out.par_names))
        col = np.asarray(out[nm])
        if col.dtype.names is not None or col.dtype.kind != "f" or col.shape != (len(out),):
            raise Violation("column %s is not a plain floating-point column (dtype %s, shape %s)"
                            % (nm, col.dtype, col.shape))
    lp = np.asarray(out["ln_prior"], dtype=float)
    want_lp = np.asarray(lib["ln_prior"])[rows]
    if not np.array_equal(lp, want_lp):
        raise Violation("ln_prior does not belong to the returned sample", rows=rows[:12], got=lp[:12], want=want_lp[:12])
    ll = np.asarray(out["ln_likelihood"], dtype=float)
    if not np.array_equal(ll, lls[rows]):
        raise Violation("ln_likelihood does not belong to the returned sample", rows=rows[:12], got=ll[:12],
                        want=lls[rows][:12])


def body_factory(ctx):
    def body(case):
        with ctx.sut("rejection_sample[%s, return_logprobs=%s, n_linear=%d]"
                     % (case["path"], case.get("return_logprobs"), case["n_linear"])):
            R = rej.run_rejection(ctx, case)
        res, rg, lib, lls = R["res"], R["rg"], R["lib"], R["lls"]
        order = rej.evaluation_order(case, rg)
        if not np.isfinite(lls[order]).any():
            ctx.classes["outside domain: all evaluated likelihoods -inf"] += 1
            return
        if case.get("return_all"):
            if not (isinstance(res, tuple) and len(res) == 2):
                raise Violation("return_all_logprobs=True must return (samples, lls)", got=type(res).__name__)
            out, all_ll = res
            if not np.array_equal(np.asarray(all_ll, dtype=float), lls[order]):
                raise Violation("second return value is not the likelihood of every evaluated sample in evaluation "
                                "order", got=np.asarray(all_ll)[:12], want=lls[order][:12])
        else:
            out = res
        uu = np.asarray(rg.calls("uniform")[0]["out"])
        pos = rej.accepted_from(lls[order], uu, case["max_post"])
        rej.check_rows(out, lib, order[pos], case["n_linear"])
        if case.get("return_logprobs"):
            check_logprobs(out, lib, lls, case["n_linear"])
        elif "ln_prior" in out.par_names or "ln_likelihood" in out.par_names:
            raise Violation("log-probability columns returned although return_logprobs=False")
        multi_batch = case["path"] != "mem" and (case["n_batches"] or 1) > 1
        nt = len(out) >= 2 and bool(case.get("return_logprobs") or case.get("return_all")) and (
            (case["randomize"] and case["path"] != "mem") or case["max_post"] is not None or case["n_linear"] > 1 or multi_batch)
        ctx.note_case(case, nt, ["path:" + case["path"], "logprobs=%s" % bool(case.get("return_logprobs")),
                                 "all=%s" % bool(case.get("return_all")), "n_linear=%d" % case["n_linear"],
                                 "shuffled" if (case["randomize"] and case["path"] != "mem") else "in_order",
                                 "multi_batch" if multi_batch else "one_batch"])

    return body


@st.composite
def iter_cases(draw, max_n=80):
    n = draw(st.integers(2, max_n))
    case = {"n": n, "profile": draw(st.sampled_from(["flat", "ties", "range", "random", "last_only", "spike"])),
            "profile_seed": draw(st.integers(0, 10**6)), "path": draw(st.sampled_from(["mem", "cache", "file"])),
            "ll_shift": draw(st.sampled_from([0.0, 0.0, 0.0, -3000.0, 2500.0, -1e5])),
            "lib_history": draw(st.sampled_from([None, None, None, None, "pack_units", "setitem", "inplace"])),
            "lib_dtype": draw(st.sampled_from([None, None, None, "P_f4", "all_f4"])),
            "n_linear": draw(st.sampled_from([1, 1, 2, 3])), "randomize": draw(st.booleans()),
            "n_batches": draw(st.one_of(st.none(), st.integers(1, 6))), "pool_size": draw(st.integers(1, 3)),
            "rng_seed": draw(st.integers(0, 2**32 - 1)), "steer": None, "steer_seed": 0,
            "return_logprobs": draw(st.booleans()),
            "n_requested": draw(st.integers(1, max(1, n // 2))),
            "init_batch": draw(st.integers(1, n)), "growth": draw(st.sampled_from([1, 2, 8, 128])),
            "max_prior": draw(st.one_of(st.none(), st.integers(1, n)))}
    if case["max_prior"] is not None and case["path"] != "mem":
        case["init_batch"] = min(case["init_batch"], case["max_prior"])
    return case


def iter_order(case, rg):
    n = case["n"]
    if case["path"] == "mem":
        return np.arange(n)
    m = min(n, case["max_prior"] or n)      # a budget beyond the library size is limited by the library
    if case["randomize"]:
        ch = rg.calls("choice")
        if len(ch) != 1:
            raise Violation("expected exactly one rng.choice call, saw %d" % len(ch))
        idx = np.asarray(ch[0]["out"])
        if len(set(idx.tolist())) != len(idx) or (len(idx) and (idx.min() < 0 or idx.max() >= n)):
            raise Violation("shuffled evaluation order is not a repeat-free selection of library rows (a prior sample "
                            "would be evaluated twice)", order=idx[:20], library_size=n)
        return idx
    return np.arange(m)


def iter_body_factory(ctx):
    def body(case):
        it = dict(n_requested_samples=case["n_requested"], init_batch_size=case["init_batch"],
                  growth_factor=case["growth"], max_prior_samples=case["max_prior"])
        try:
            R = rej.run_rejection(ctx, case, iterative=it, order_fn=iter_order)
        except Violation:
            raise
        except Exception as e:
            if case.get("return_logprobs") is False or True:
                # raising is an allowed outcome of the iterative sampler (C14 decides when); C06 only speaks
                # about what is returned
                ctx.classes["iterative: raised %s" % type(e).__name__] += 1
                return
        out, lib, lls = R["res"], R["lib"], R["lls"]
        import thejoker as tj
        if not isinstance(out, tj.JokerSamples):
            ctx.classes["iterative: returned %s (judged by C14)" % type(out).__name__] += 1
            return
        if case["return_logprobs"]:
            check_logprobs(out, lib, lls, case["n_linear"])
        ctx.note_case(case, len(out) >= 2 and case["return_logprobs"],
                      ["iter:path:" + case["path"], "iter:logprobs=%s" % case["return_logprobs"],
                       "iter:n_linear=%d" % case["n_linear"]])

    return body


# ----------------------------------------------------------------------------- real kernel
@st.composite
def real_cases(draw):
    from vt import gens

    spec = draw(gens.problems(max_surveys=2, max_epochs=6, max_poly=2, n_rows=(3, 24), units=draw(st.booleans())))
    spec["path"] = draw(st.sampled_from(["mem", "cache", "file"]))
    n = len(spec["rows"])
    spec["opts"] = {"n_linear": draw(st.sampled_from([1, 2, 3])), "randomize": draw(st.booleans()),
                    "max_post": draw(st.one_of(st.none(), st.integers(1, n))), "n_batches": draw(st.one_of(st.none(), st.integers(1, 5))),
                    "rng_seed": draw(st.integers(0, 2**32 - 1)), "iterative": draw(st.booleans()),
                    "n_req": draw(st.integers(1, 4)), "init_batch": draw(st.integers(1, n))}
    # short periods / large amplitudes so that the K-variance cap binds for part of the rows
    for r in spec["rows"][::2]:
        r["P"] = gens.rounded(draw(gens.logfloat(0.05, 2.0)), 9)
    return spec


def real_body_factory(ctx):
    import os

    import astropy.units as u

    import thejoker as tj
    from vt import gens
    from vt import oracle_gauss as og
    from vt.checks import c01, c03

    def body(spec):
        o = spec["opts"]
        prob = og.Problem(spec)
        data = gens.build_data(spec)
        prior = gens.build_prior(spec["prior"])
        n = len(spec["rows"])
        lnp = -(np.arange(n, dtype=float) + 0.25)
        lib = gens.build_samples(spec, extra={"ln_prior": lnp})
        rows_eff = c01.effective_rows(lib, prob.data_unit)
        with ctx.sut("marginal_ln_likelihood"):
            ll_all = np.asarray(tj.TheJoker(prior).marginal_ln_likelihood(data, lib, in_memory=True), dtype=float)
        joker = tj.TheJoker(prior, rng=np.random.default_rng(o["rng_seed"]))
        src = lib
        if spec["path"] == "file":
            src = os.path.join(ctx.workdir, "c06real.hdf5")
            lib.write(src, overwrite=True)
        kw = dict(n_linear_samples=o["n_linear"], return_logprobs=True, in_memory=spec["path"] == "mem")
        with ctx.sut("%s[%s]" % ("iterative_rejection_sample" if o["iterative"] else "rejection_sample", spec["path"])):
            if o["iterative"]:
                out = joker.iterative_rejection_sample(data, src, n_requested_samples=o["n_req"], init_batch_size=o["init_batch"],
                                                       randomize_prior_order=o["randomize"], n_batches=o["n_batches"], **kw)
            else:
                out = joker.rejection_sample(data, src, max_posterior_samples=o["max_post"], randomize_prior_order=o["randomize"],
                                             n_batches=o["n_batches"], **kw)
        nl_units = {"P": u.day, "e": u.one, "omega": u.rad, "M0": u.rad, "s": og.unit(prob.data_unit)}
        cap = False
        for i in range(len(out)):
            vals = {nm: float(out[nm][i].to_value(un)) for nm, un in nl_units.items()}
            cand = [k for k, r in enumerate(rows_eff) if all(abs(r[nm] - vals[nm]) <= 4e-15 * abs(r[nm]) for nm in vals)]
            if not cand:
                raise Violation("returned row is not a prior sample", row=vals)
            lp = float(np.asarray(out["ln_prior"])[i])
            ll = float(np.asarray(out["ln_likelihood"])[i])
            if not any(lp == lnp[k] for k in cand):
                raise Violation("ln_prior of a returned row is not the value stored with that prior sample",
                                row=vals, got=lp, candidates=[float(lnp[k]) for k in cand])
            if not any(abs(ll - ll_all[k]) <= 1e-9 * (1 + abs(ll_all[k])) for k in cand):
                raise Violation("ln_likelihood of a returned row is not the marginal ln-likelihood of that row's "
                                "nonlinear parameters", row=vals, got=ll, marginal=[float(ll_all[k]) for k in cand])
            K = spec["prior"]["K"]
            if K["kind"] == "fcm" and rows_eff[cand[0]]["e"] <= 0.99:
                capped = prob.linear_prior(rows_eff[cand[0]])[1][0]
                uncapped = prob.linear_prior(rows_eff[cand[0]], ("F3",))[1][0]
                cap = cap or uncapped > capped * (1 + 1e-12)
        ctx.note_case(spec, len(out) >= 2, ["real:path:" + spec["path"], "real:iterative" if o["iterative"] else "real:rejection",
                                            "real:n_linear=%d" % o["n_linear"], "real:cap binds" if cap else "real:cap idle"])

    return body


def run(ctx):
    big = not ctx.quick
    ctx.search("rejection", rej.rejection_cases(max_n=300 if big else 50, logprobs=True), body_factory(ctx),
               quick=1500, thorough=40000)
    ctx.search("large", rej.large_cases(logprobs=True), body_factory(ctx), quick=6, thorough=80)
    ctx.search("iterative", iter_cases(max_n=300 if big else 80), iter_body_factory(ctx), quick=800, thorough=20000)
    ctx.search("real_kernel", real_cases(), real_body_factory(ctx), quick=400, thorough=10000)
