"""Fault injection at the Python call boundaries used inside the sampler (C13).

Every instrumented point calls hit(point) before (or after) delegating to the real function.  A dry
run counts the invocations of each point; an injection run raises at the k-th invocation of one
point.  State lives in this module so that forked pool workers inherit the active plan."""
import contextlib
import os
from unittest import mock

import numpy as np

COUNTS = {}
ACTIVE = None          # dict(point=..., k=..., exc=ExceptionClass) or None
TASK_STARTS = []       # start indices of every task handed to a worker function (in-process runs)


class InjectedError(Exception):
    pass


class InjectedBase(BaseException):
    pass


def _hdf5_error():
    import tables
    return tables.HDF5ExtError


class _Lazy(dict):
    """exception classes by name; the I/O library's own error type is imported on first use"""

    def __getitem__(self, k):
        if k == "HDF5ExtError" and dict.__getitem__(self, k) is None:
            dict.__setitem__(self, k, _hdf5_error())
        return dict.__getitem__(self, k)

    def values(self):
        return [self[k] for k in self]


EXC_TYPES = _Lazy({"OSError": OSError, "ValueError": ValueError, "InjectedError": InjectedError, "InjectedBase": InjectedBase,
                   "HDF5ExtError": None})


def reset(active=None):
    global ACTIVE
    COUNTS.clear()
    del TASK_STARTS[:]
    ACTIVE = active


def hit(point):
    COUNTS[point] = COUNTS.get(point, 0) + 1
    a = ACTIVE
    if a is not None and a["point"] == point and COUNTS[point] == a["k"]:
        raise EXC_TYPES[a["exc"]]("injected fault at %s #%d" % (point, a["k"]))


def worker_hit(task):
    """fault keyed by the start index of the task (works inside forked workers too)"""
    start = task[1]
    TASK_STARTS.append((int(start)))
    a = ACTIVE
    if a is not None and a["point"] == "worker@start" and int(start) == a["k"]:
        raise EXC_TYPES[a["exc"]]("injected fault in the worker of the task starting at %d" % start)


def _wrap(point, orig, after=False):
    def w(*a, **k):
        if not after:
            hit(point)
        out = orig(*a, **k)
        if after:
            hit(point)
        return out
    w.__name__ = getattr(orig, "__name__", "wrapped")
    return w


def _wrap_both(point, orig):
    def w(*a, **k):
        hit(point)
        out = orig(*a, **k)
        hit(point + ":after")
        return out
    w.__name__ = getattr(orig, "__name__", "wrapped")
    return w


def _wrap_worker(orig):
    def w(task):
        worker_hit(task)
        return orig(task)
    w.__name__ = orig.__name__
    return w


class HelperProxy:
    """Delegates to the real kernel helper; the two batch methods are injection points."""

    def __init__(self, helper):
        self._h = helper

    def __getattr__(self, name):
        return getattr(self._h, name)

    def batch_marginal_ln_likelihood(self, chunk):
        hit("helper.batch_marginal_ln_likelihood")
        return self._h.batch_marginal_ln_likelihood(chunk)

    def batch_get_posterior_samples(self, chunk, n, rng):
        hit("helper.batch_get_posterior_samples")
        return self._h.batch_get_posterior_samples(chunk, n, rng)

    def __reduce__(self):
        return (HelperProxy, (self._h,))


class FaultyGenerator(np.random.Generator):
    def uniform(self, *a, **k):
        hit("rng.uniform")
        return super().uniform(*a, **k)

    def choice(self, *a, **k):
        hit("rng.choice")
        return super().choice(*a, **k)


class FaultyPool:
    """Wraps a pool: pool.map is an injection point before and after the tasks ran."""

    def __init__(self, pool, size):
        self.pool = pool
        self.size = size
        self.closed = False

    def map(self, func, tasks, **kw):
        if self.closed:
            raise ValueError("Pool not running")   # what a real pool does once it has been closed
        hit("pool.map")
        out = list(self.pool.map(func, tasks, **kw))
        hit("pool.map:after")
        return out

    def close(self):
        # the pool belongs to the user: the sampler has no business closing it
        self.closed = True


@contextlib.contextmanager
def instrumented():
    """Patch every instrumented call site (module attributes only: nothing in the repository is edited)."""
    import h5py
    import tables

    import thejoker.multiproc_helpers as mh
    import thejoker.samples as sm

    RealFile = h5py.File

    class CountingFile(RealFile):
        def __init__(self, *a, **k):
            hit("h5py.File")
            super().__init__(*a, **k)

    orig_write = sm.JokerSamples.write
    orig_unpack = sm.JokerSamples.unpack.__func__

    def write(self, *a, **k):
        hit("JokerSamples.write")
        out = orig_write(self, *a, **k)
        hit("JokerSamples.write:after")
        return out

    def unpack(cls, *a, **k):
        hit("JokerSamples.unpack")
        return orig_unpack(cls, *a, **k)

    with contextlib.ExitStack() as st:
        st.enter_context(mock.patch.object(sm.JokerSamples, "write", write))
        st.enter_context(mock.patch.object(sm.JokerSamples, "unpack", classmethod(unpack)))
        st.enter_context(mock.patch.object(sm, "write_table_hdf5", _wrap_both("write_table_hdf5", sm.write_table_hdf5)))
        st.enter_context(mock.patch.object(tables, "open_file", _wrap("tables.open_file", tables.open_file)))
        st.enter_context(mock.patch.object(h5py, "File", CountingFile))
        st.enter_context(mock.patch.object(mh, "read_batch", _wrap("read_batch", mh.read_batch)))
        st.enter_context(mock.patch.object(mh, "batch_tasks", _wrap("batch_tasks", mh.batch_tasks)))
        st.enter_context(mock.patch.object(mh, "marginal_ln_likelihood_worker", _wrap_worker(mh.marginal_ln_likelihood_worker)))
        st.enter_context(mock.patch.object(mh, "make_full_samples_worker", _wrap_worker(mh.make_full_samples_worker)))
        yield


def open_descriptors(directories):
    """open file descriptors of this process that point into one of the directories (also to files already unlinked)"""
    out = []
    try:
        fds = os.listdir("/proc/self/fd")
    except OSError:
        return out
    for fd in fds:
        try:
            tgt = os.readlink("/proc/self/fd/" + fd)
        except OSError:
            continue
        if any(tgt.startswith(os.path.abspath(d) + os.sep) for d in directories):
            out.append(tgt)
    return out


def all_files(directory):
    return [os.path.join(r, fn) for r, _, files in os.walk(directory) for fn in files]


def hdf5_files(directory):
    out = []
    for root, _, files in os.walk(directory):
        for fn in files:
            p = os.path.join(root, fn)
            try:
                with open(p, "rb") as f:
                    magic = f.read(8)
            except OSError:
                magic = b""
            if fn.endswith((".hdf5", ".h5")) or magic == b"\x89HDF\r\n\x1a\n":
                out.append(p)
    return out
