import loadext
from ref import *
import os, tempfile, traceback, time, random
from astropy.time import Time
from schwimmbad import MultiPool, SerialPool
def mkdata(n, unit=u.km/u.s, base=56000., span=300., seed=0, errscale=1.):
    r = np.random.default_rng(seed)
    t = base + np.sort(r.uniform(0, span, n))
    return tj.RVData(t=t, rv=r.normal(0,5,n)*unit, rv_err=errscale*r.uniform(0.1,0.5,n)*unit)
def mksamples(N, s=0., pt=1, no=0, seed=1, lnp=False, t_ref=None):
    r = np.random.default_rng(seed)
    smp = tj.JokerSamples(poly_trend=pt, n_offsets=no, t_ref=t_ref)
    smp['P'] = r.uniform(2, 500, N)*u.day; smp['e'] = r.uniform(0,0.9,N); smp['omega']=r.uniform(0,6.28,N)*u.rad
    smp['M0']=r.uniform(0,6.28,N)*u.rad; smp['s']=np.full(N, s)*u.km/u.s
    if lnp: smp['ln_prior'] = r.normal(size=N)
    return smp
if __name__ == "__main__":
    import thejoker.src.fast_likelihood as fl; print(fl.__file__)
    data = mkdata(5, errscale=30.)  # weak data
    prior = tj.JokerPrior.default(P_min=2*u.day, P_max=500*u.day, sigma_K0=30*u.km/u.s, sigma_v=100*u.km/u.s)
    smp = mksamples(300, lnp=True)
    st_np = np.random.get_state()[1][:5].copy(); st_py = random.getstate()[1][:5]
    outs = {}
    t0=time.time()
    ll0 = tj.TheJoker(prior).marginal_ln_likelihood(data, smp, in_memory=True)
    for nm, kw in [('inmem', dict(in_memory=True)), ('file', dict()), ('file nb=7', dict(n_batches=7)), ('file nb=1000', dict(n_batches=1000))]:
        j = tj.TheJoker(prior, rng=np.random.default_rng(42))
        ll = j.marginal_ln_likelihood(data, smp, **{k:v for k,v in kw.items()})
        o = j.rejection_sample(data, smp, return_logprobs=False, **kw)
        outs[nm] = o
        print(nm, "ll bitequal", np.array_equal(ll, ll0), "n acc", len(o), o['P'][:3].value, o['K'][:3].value, time.time()-t0)
    with MultiPool(processes=3) as pool:
        for nb in [None, 7]:
            j = tj.TheJoker(prior, rng=np.random.default_rng(42), pool=pool)
            ll = j.marginal_ln_likelihood(data, smp, n_batches=nb)
            o = j.rejection_sample(data, smp, n_batches=nb)
            print("multipool nb", nb, "ll bitequal", np.array_equal(ll, ll0), len(o), o['P'][:3].value, o['K'][:3].value, time.time()-t0)
    print("global np state untouched:", np.array_equal(st_np, np.random.get_state()[1][:5]), "py:", st_py == random.getstate()[1][:5])
    # two successive calls give different linear draws?
    j = tj.TheJoker(prior, rng=np.random.default_rng(42))
    a = j.rejection_sample(data, smp); b = j.rejection_sample(data, smp)
    print("successive calls K:", a['K'][:3].value, b['K'][:3].value, "P same?", a['P'][:3].value, b['P'][:3].value)
    # prior.sample with rng: global state
    st = np.random.get_state()[1][:5].copy()
    s1 = prior.sample(size=5, rng=np.random.default_rng(3)); s2 = prior.sample(size=5, rng=np.random.default_rng(3))
    print("prior.sample reproducible:", np.array_equal(s1['P'].value, s2['P'].value), "global untouched", np.array_equal(st, np.random.get_state()[1][:5]))
    j1 = tj.TheJoker(prior, rng=np.random.default_rng(9)); j2 = tj.TheJoker(prior, rng=np.random.default_rng(9))
    r1 = j1.rejection_sample(data, 200); r2 = j2.rejection_sample(data, 200)
    print("by-count reproducible:", len(r1), len(r2), np.array_equal(r1['P'].value, r2['P'].value) if len(r1)==len(r2) else None)
