# recon: C04 identity with trends, offsets, custom t_ref, unit variety
from ref import *
from astropy.time import Time
from scipy.stats import norm, multivariate_normal as mvn
import sys
rng = np.random.default_rng(int(sys.argv[1]) if len(sys.argv)>1 else 0)
kms = u.km/u.s
bad=0; n=0; maxd=0
for it in range(40):
    poly = int(rng.integers(1,4)); noff = int(rng.integers(0,3)); s = float(rng.choice([0., 0.3]))
    sigv = [30., 0.1, 1e-4][:poly]; sigo=[2.,3.][:noff]; sigK=8.
    with pm.Model():
        K = xu.with_unit(pm.Normal('K', 1.5, sigK), kms)
        offs = [xu.with_unit(pm.Normal(f'dv0_{i+1}', 0.2, sigo[i]), kms) for i in range(noff)]
        prior = tj.JokerPrior.default(P_min=1*u.day, P_max=1e4*u.day, sigma_v=[sv*kms/u.day**i for i,sv in enumerate(sigv)] if poly>1 else sigv[0]*kms, poly_trend=poly, v0_offsets=offs, pars={'K':K})
    datas=[]
    for k in range(noff+1):
        nn = int(rng.integers(2,6)); t = 55000 + 200*k + rng.uniform(0, 150, nn)   # disjoint in time -> avoids C08 finding
        datas.append((t, rng.normal(0,10,nn), rng.uniform(0.5,2,nn)))
    custom_tref = bool(rng.integers(0,2))
    if noff==0:
        t,rv,er = datas[0]
        data = tj.RVData(t=t, rv=rv*kms, rv_err=er*kms, t_ref=Time(54990.25, format='mjd', scale='tcb') if custom_tref else None)
        data_in = data; all_t, all_rv, all_er = np.sort(t), rv[np.argsort(t)], er[np.argsort(t)]; ids = np.zeros(len(t), int); tref = data._t_ref_bmjd
    else:
        data_in = [tj.RVData(t=t, rv=rv*kms, rv_err=er*kms) for t,rv,er in datas]
        all_t = np.concatenate([d[0] for d in datas]); o = np.argsort(all_t); ids = np.concatenate([[k]*len(d[0]) for k,d in enumerate(datas)])[o]
        all_rv = np.concatenate([d[1] for d in datas])[o]; all_er = np.concatenate([d[2] for d in datas])[o]; all_t = all_t[o]; tref = all_t.min()
    N=3
    P = 10**rng.uniform(0.5,3,N); e = rng.uniform(0,.9,N); om = rng.uniform(-7,7,N); M0 = rng.uniform(-7,7,N)
    nlin = 2+noff+poly-1
    x = rng.normal(0, 5, (N, nlin)) * np.array([1,1]+[1]*noff+[1e-2,1e-4][:poly-1])
    smp = tj.JokerSamples(poly_trend=poly, n_offsets=noff, t_ref=Time(tref, format='mjd', scale='tcb'))
    smp['P']=P*u.day; smp['e']=e; smp['omega']=om*u.rad; smp['M0']=M0*u.rad; smp['s']=np.full(N,s)*kms
    smp['K']=x[:,0]*kms; smp['v0']=x[:,1]*kms
    for k in range(noff): smp[f'dv0_{k+1}'] = x[:,2+k]*kms
    for i in range(1,poly): smp[f'v{i}'] = x[:,1+noff+i]*kms/u.day**i
    joker = tj.TheJoker(prior, rng=np.random.default_rng(1))
    llm = joker.marginal_ln_likelihood(data_in, smp, in_memory=True)
    # posterior sample t_ref check
    post = joker.rejection_sample(data_in, smp, in_memory=True)
    tref_ok = abs(post.t_ref.tcb.mjd - tref) < 1e-9
    for i in range(N):
        # unmarginalized via code: offsets subtracted from data by survey
        y = all_rv.copy()
        for k in range(noff): y[ids==k+1] -= x[i,2+k]
        d_corr = tj.RVData(t=all_t, rv=y*kms, rv_err=all_er*kms, t_ref=Time(tref, format='mjd', scale='tcb'))
        lun = smp[i].ln_unmarginalized_likelihood(d_corr)[0]
        M = design(all_t, tref, ids, poly, P[i],e[i],om[i],M0[i])
        rv_orbit = smp.get_orbit(i).radial_velocity(d_corr.t).to_value(kms)
        rv_design = M@x[i] - sum(x[i,2+k]*(ids==k+1) for k in range(noff))
        Lam = np.array([sigK**2, sigv[0]**2]+[q**2 for q in sigo]+[q**2 for q in sigv[1:]]); mu = np.array([1.5, 0.]+[0.2]*noff+[0.]*(poly-1))
        var_true = all_er**2 + s**2; var_code = all_er**2   # jitter finding: kernel ignores s
        def post_aA(var):
            Ainv = np.diag(1/Lam)+(M.T/var)@M; a=np.linalg.solve(Ainv, mu/Lam+(M.T/var)@all_rv); return a,Ainv
        a,A = post_aA(var_true)
        rhs = lun + norm.logpdf(x[i], mu, np.sqrt(Lam)).sum() - (-0.5*(x[i]-a)@A@(x[i]-a) + 0.5*np.linalg.slogdet(A)[1] - 0.5*len(a)*np.log(2*np.pi))
        n+=1
        d_rv = np.abs(rv_orbit-rv_design).max()
        ok_rv = d_rv < 1e-7*(1+np.abs(rv_design).max())
        ok_id = abs(llm[i]-rhs) < 1e-6*(1+abs(rhs))
        # finding-adjusted for s>0: LHS from closed form with jitter
        B = np.diag(var_true)+(M*Lam)@M.T; lhs_true = ln_marg(all_rv, var_true, M, mu, Lam)
        ok_adj = abs(lhs_true-rhs) < 1e-6*(1+abs(rhs))
        maxd = max(maxd, d_rv)
        if not (ok_rv and tref_ok and (ok_id or (s>0 and ok_adj))):
            bad+=1; print("BAD", poly, noff, s, custom_tref, i, "rv diff", d_rv, "ll", llm[i], rhs, lhs_true, tref_ok)
print("cases", n, "bad", bad, "max rv diff", maxd)
