"""C19 - time-sampling diagnostics equal their definitions."""
import numpy as np
from hypothesis import strategies as st

from vt import gens
from vt.runner import Violation

RULE = ("1-60 observation times over baselines of 1e-2..1e4 periods (a third of the cases are built so that the largest "
        "empty arc is the one across phase 1->0), explicit or default reference epoch, periods, n_bins 1-50; sample "
        "tables of 1-30 rows with ln_prior / ln_likelihood incl. exact ties. Oracle: brute-force definitions written in "
        "the harness (largest arc on the phase circle incl. the wrap-around arc, occupied-bin fraction, baseline/P, "
        "first arg-max of ln_prior+ln_likelihood) and metamorphic relations (invariance under permutation of the "
        "observations; max_phase_gap invariant under time reversal of the observing pattern). Tolerance 1e-9 on "
        "phases. Non-trivial: >=3 observations (diagnostics) / >=2 rows (MAP); distinct by fingerprint."
        ' Also: clean=False and presorted input, reference epoch before / inside / after the baseline, MAP tables with a stored ln_posterior column, MAP_sample must not modify its input.')
SHARDS = {"quick": 2, "thorough": 16}
BUDGET = {"quick": 60, "thorough": 600}


@st.composite
def cases(draw):
    n = draw(st.integers(1, 60))
    P = gens.rounded(draw(gens.logfloat(0.5, 500.0)), 9)
    t0 = gens.rounded(draw(gens.fl(50000.0, 58000.0)), 9)
    mode = draw(st.sampled_from(["random", "wrap", "wrap", "cluster", "grid"]))
    if mode == "grid":
        # epochs at exact multiples of P/16 after the reference epoch, P a power of two: every phase is an exactly
        # representable multiple of 1/16, many of them bin edges for n_bins in {2, 4, 8, 16}
        P = float(2 ** draw(st.integers(-2, 6)))
        t0 = float(draw(st.integers(50000, 58000)))
        ts = [t0 + draw(st.integers(0, 16 * 40)) * P / 16 for _ in range(n)]
        return {"t": ts, "P": P, "P_unit": "d", "t_ref": "explicit", "t_ref_val": t0,
                "n_bins": draw(st.sampled_from([2, 4, 8, 16, 3, 5])), "perm_seed": draw(st.integers(0, 10**6)), "mode": mode,
                "clean": draw(st.sampled_from([True, True, False])), "presorted": draw(st.booleans()),
            "t_ref_scale": "tcb"}     # (scale conversions of the epoch are not exact: the grid needs exact arithmetic)
    nper = draw(gens.logfloat(1e-2, 1e4))
    if mode == "random":
        ts = [t0 + draw(gens.fl(0, nper * P)) for _ in range(n)]
    elif mode == "wrap":
        # all phases inside a window [a, a+w] with w < 0.5: the largest empty arc wraps around
        a = draw(gens.fl(0.0, 0.95))
        w = draw(gens.fl(0.01, 0.45))
        ts = [t0 + (draw(st.integers(0, max(0, int(nper)))) + a + w * draw(gens.fl(0, 1))) * P for _ in range(n)]
    else:
        c = draw(gens.fl(0, nper * P))
        ts = [t0 + c + draw(gens.fl(0, 0.05 * P)) for _ in range(n)]
    return {"t": [gens.rounded(x, 13) for x in ts], "P": P, "P_unit": draw(st.sampled_from(["d", "yr", "h"])),
            "t_ref": draw(st.sampled_from(["default", "explicit"])),
            # an explicit reference epoch before, inside or after the observed baseline
            "t_ref_val": t0 + draw(st.one_of(gens.fl(-3, 0), gens.fl(0, 1).map(lambda x: x * nper), gens.fl(1, 1.5).map(lambda x: x * nper))) * P,
            "n_bins": draw(st.integers(1, 50)), "perm_seed": draw(st.integers(0, 10**6)), "mode": mode,
            "clean": draw(st.sampled_from([True, True, False])), "presorted": draw(st.booleans()),
            "t_ref_scale": draw(st.sampled_from(["tcb", "utc", "tt"]))}


def _f(x):
    """scalar value of a diagnostic evaluated for a one-row sample (some return 1-element arrays)"""
    x = np.asarray(getattr(x, "value", x), dtype=float).ravel()
    if x.size != 1:
        raise Violation("diagnostic returned %d values for a single sample" % x.size)
    return float(x[0])


def brute_gap(phase):
    p = np.sort(np.asarray(phase, dtype=float))
    if len(p) == 1:
        return 1.0
    return float(max(np.max(np.diff(p)), 1.0 - (p[-1] - p[0])))


def make(case, t, t_ref_val):
    import astropy.units as u
    from astropy.time import Time

    import thejoker as tj
    from vt.oracle_gauss import unit

    kw = {}
    if case["t_ref"] == "explicit":
        kw["t_ref"] = Time(t_ref_val, format="mjd", scale="tcb")
        if case.get("t_ref_scale", "tcb") != "tcb":
            kw["t_ref"] = getattr(kw["t_ref"], case["t_ref_scale"])     # the same instant, quoted on another time scale
    n = len(t)
    if not case.get("clean", True):
        kw["clean"] = False     # documented option: no filtering of non-finite values (there are none here)
    data = tj.RVData(t=np.asarray(t, dtype=float), rv=np.arange(n, dtype=float) * u.km / u.s, rv_err=np.ones(n) * u.km / u.s, **kw)
    s = tj.JokerSamples()
    s["P"] = np.array([(case["P"] * u.day).to_value(unit(case["P_unit"]))]) * unit(case["P_unit"])
    return data, s


def body_factory(ctx):
    import astropy.units as u

    import thejoker as tj

    def body(case):
        t = np.array(case["t"], dtype=float)
        if case.get("presorted"):
            t = np.sort(t)
        data, s = make(case, t, case["t_ref_val"])
        P = s["P"].to_value(u.day)[0]
        tref = case["t_ref_val"] if case["t_ref"] == "explicit" else t.min()
        phase = np.mod((t - tref) / P, 1.0)
        # ---- max_phase_gap
        with ctx.sut("max_phase_gap"):
            g = _f(tj.max_phase_gap(s, data))
        want = brute_gap(phase)
        ptol = 1e-9 + 4e-16 * np.max(np.abs(t - tref)) / P * 4
        if not (abs(g - want) <= 2 * ptol):
            raise Violation("max_phase_gap is not the largest empty arc on the phase circle", got=g, want=want,
                            sorted_phases=np.sort(phase)[:12], wraparound_arc=1.0 - (phase.max() - phase.min()))
        # permutation of the observations
        perm = np.random.default_rng(case["perm_seed"]).permutation(len(t))
        data_p, _ = make(case, t[perm], case["t_ref_val"])
        with ctx.sut("diagnostics on permuted observations"):
            g_p = _f(tj.max_phase_gap(s, data_p))
            pc_p = _f(tj.phase_coverage(s, data_p, n_bins=case["n_bins"]))
            ps_p = _f(tj.periods_spanned(s, data_p))
        # time reversal about an epoch
        c = tref + 0.37 * P
        data_r, _ = make(case, 2 * c - t, 2 * c - case["t_ref_val"])
        with ctx.sut("max_phase_gap on the time-reversed pattern"):
            g_r = _f(tj.max_phase_gap(s, data_r))
        if not (abs(g_p - g) <= 1e-12):
            raise Violation("max_phase_gap depends on the order of the observations", a=g, b=g_p)
        if not (abs(g_r - g) <= 4 * ptol):
            raise Violation("max_phase_gap changes under time reversal of the observing pattern", forward=g, reversed=g_r)
        # ---- phase_coverage
        nb = case["n_bins"]
        with ctx.sut("phase_coverage"):
            pc = _f(tj.phase_coverage(s, data, n_bins=nb))
        edges = np.arange(nb + 1) / nb
        idx = np.minimum((phase * nb).astype(int), nb - 1)
        ambiguous = int(np.sum(np.min(np.abs(phase[:, None] - edges[None, :]), axis=1) < ptol))
        if case["mode"] == "grid" and case.get("t_ref_scale", "tcb") == "tcb":
            # all arithmetic is exact here (dyadic phases): a phase on an edge belongs to the bin that starts there
            # (half-open bins [a, b): those of numpy.histogram, which the function is built on), nothing is ambiguous
            ambiguous = 0
        want_pc = len(set(idx.tolist())) / nb
        if not (abs(pc - want_pc) <= ambiguous / nb + 1e-12):
            raise Violation("phase_coverage is not the fraction of occupied phase bins", got=pc, want=want_pc,
                            n_bins=nb, phases=np.sort(phase)[:12])
        if not (abs(pc_p - pc) <= 1e-12):
            raise Violation("phase_coverage depends on the order of the observations", a=pc, b=pc_p)
        # ---- periods_spanned
        with ctx.sut("periods_spanned"):
            ps = _f(tj.periods_spanned(s, data))
        want_ps = (t.max() - t.min()) / P
        if not (abs(ps - want_ps) <= 2e-9 / P + 1e-12 * abs(want_ps)):
            raise Violation("periods_spanned is not baseline / period", got=ps, want=want_ps)
        if not (abs(ps_p - ps) <= 1e-12 * max(1.0, abs(ps))):
            raise Violation("periods_spanned depends on the order of the observations", a=ps, b=ps_p)
        wrap = (1.0 - (phase.max() - phase.min())) >= (np.max(np.diff(np.sort(phase))) if len(t) > 1 else 0)
        ctx.note_case(case, len(t) >= 3, ["mode:" + case["mode"], "largest arc wraps" if wrap else "largest arc interior",
                                          "t_ref:" + case["t_ref"], "clean=%s" % case.get("clean", True), "n=%s" % ("1" if len(t) == 1 else ("2" if len(t) == 2 else ">=3"))])

    return body


@st.composite
def map_cases(draw):
    n = draw(st.integers(1, 30))
    vals = st.one_of(st.integers(-3, 3).map(float), gens.fl(-50, 50), st.just(float("-inf")))
    shift = draw(st.sampled_from([0.0, 0.0, -2000.0, 1500.0, -1e6]))     # ln-likelihoods of long time series / tiny errors
    return {"ln_prior": [draw(vals) for _ in range(n)], "ln_like": [x + shift if x != float("-inf") else x for x in (draw(vals) for _ in range(n))],
            # an additional stored column (samples made from an MCMC trace carry one); it is not part of the definition
            "ln_posterior": draw(st.one_of(st.none(), st.lists(gens.fl(-50, 50), min_size=n, max_size=n)))}


def map_body_factory(ctx):
    import astropy.units as u

    import thejoker as tj

    def body(case):
        n = len(case["ln_prior"])
        s = tj.JokerSamples()
        s["P"] = (np.arange(n) + 1.0) * u.day
        s["e"] = np.arange(n) / (n + 1.0)
        s["ln_prior"] = np.array(case["ln_prior"])
        s["ln_likelihood"] = np.array(case["ln_like"])
        if case.get("ln_posterior") is not None:
            s["ln_posterior"] = np.array(case["ln_posterior"])
        post = np.array(case["ln_prior"]) + np.array(case["ln_like"])
        if not np.isfinite(post).any():
            ctx.classes["map:outside domain (no finite log-posterior)"] += 1
            return
        best = max(post)
        want = [i for i in range(n) if post[i] == best][0]
        with ctx.sut("MAP_sample"):
            m, idx = tj.MAP_sample(s, return_index=True)
            m2 = tj.MAP_sample(s)
        if int(idx) != want and post[int(idx)] != best:
            raise Violation("MAP_sample index does not maximise ln_prior + ln_likelihood", got=int(idx), want=want, post=post[:12])
        for mm in (m, m2):
            if len(mm) != 1 or float(mm["P"].value[0]) != float(int(idx) + 1) or float(np.asarray(mm["ln_prior"])[0]) != case["ln_prior"][int(idx)]:
                raise Violation("MAP_sample does not return the row at the reported index")
        if not (np.array_equal(np.asarray(s["ln_prior"], dtype=float), np.array(case["ln_prior"], dtype=float))
                and np.array_equal(np.asarray(s["ln_likelihood"], dtype=float), np.array(case["ln_like"], dtype=float))):
            raise Violation("MAP_sample modified the log-probability columns of the table it was given")
        ties = sum(1 for p in post if p == best) > 1
        ctx.note_case(case, n >= 2, ["map:ties" if ties else "map:unique", "map:ln_posterior column" if case.get("ln_posterior") is not None else "map:two columns", "map:n=%s" % ("1" if n == 1 else ">1")])

    return body


def run(ctx):
    ctx.search("diagnostics", cases(), body_factory(ctx), quick=1500, thorough=40000)
    ctx.search("MAP", map_cases(), map_body_factory(ctx), quick=800, thorough=20000)
