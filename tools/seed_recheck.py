#!/usr/bin/env python3
"""Re-run the check of its own property against every stored seeded change (seeded/<id>-m<k>/patch.diff), each in a
scratch worktree of /repo's HEAD (removed afterwards), PAR at a time.  Records the verdict under validation.recheck
in the seed's meta.json (the original validation - demo both ways, pinned suite - is kept).

  tools/seed_recheck.py [name-prefix ...]      e.g.  tools/seed_recheck.py C01 C07-m8
"""
import json, os, shutil, subprocess, sys, tempfile
from concurrent.futures import ThreadPoolExecutor

ROOT = os.path.dirname(os.path.dirname(os.path.abspath(__file__)))
SEEDED = os.path.join(ROOT, "seeded")
PAR = int(os.environ.get("PAR", "3"))
head = subprocess.run(["git", "-C", ROOT, "rev-parse", "--short", "HEAD"], capture_output=True, text=True).stdout.strip()


def one(name):
    d = os.path.join(SEEDED, name)
    prop = name.split("-")[0]
    wt = tempfile.mkdtemp(prefix="vtre_", dir="/tmp"); os.rmdir(wt)
    subprocess.run(["git", "-C", "/repo", "worktree", "add", "--detach", wt, "HEAD"], check=True, capture_output=True)
    try:
        for f in os.listdir("/repo/thejoker/src"):
            if f.endswith((".c", ".so")):
                shutil.copy2(os.path.join("/repo/thejoker/src", f), os.path.join(wt, "thejoker/src", f))
        shutil.copy2("/repo/thejoker/_version.py", os.path.join(wt, "thejoker/_version.py"))
        ap = subprocess.run(["git", "-C", wt, "apply", os.path.join(d, "patch.diff")], capture_output=True, text=True)
        if ap.returncode != 0:
            verdict, first = "patch-does-not-apply", ap.stderr[:200]
        else:
            e = dict(os.environ, VERIF_REPO=wt, VERIF_EVIDENCE_DIR="/tmp/vtre_evidence_" + name)
            r = subprocess.run([os.path.join(ROOT, "check"), prop, "--tier", "quick"], env=e, capture_output=True, text=True)
            lines = [l for l in (r.stdout + r.stderr).split("\n") if l.startswith("violation in")]
            verdict = "caught" if r.returncode == 1 else ("missed" if r.returncode == 0 else "harness-error")
            first = lines[0][:300] if lines else None
            shutil.rmtree("/tmp/vtre_evidence_" + name, ignore_errors=True)
    finally:
        subprocess.run(["git", "-C", "/repo", "worktree", "remove", "--force", wt], capture_output=True)
        shutil.rmtree(wt, ignore_errors=True)
    mp = os.path.join(d, "meta.json")
    meta = json.load(open(mp))
    meta.setdefault("validation", {})["recheck"] = {"verif_commit": head, "check": prop, "verdict": verdict, "first_violation": first}
    json.dump(meta, open(mp, "w"), indent=1)
    print(name, verdict, flush=True)
    return name, verdict


names = sorted(n for n in os.listdir(SEEDED) if os.path.isdir(os.path.join(SEEDED, n)))
if len(sys.argv) > 1:
    names = [n for n in names if any(n.startswith(p) for p in sys.argv[1:])]
with ThreadPoolExecutor(PAR) as ex:
    res = list(ex.map(one, names))
subprocess.run(["git", "-C", "/repo", "worktree", "prune"])
bad = [r for r in res if r[1] != "caught"]
print("%d seeds, %d caught, not caught: %s" % (len(res), len(res) - len(bad), bad))
sys.exit(1 if bad else 0)
