"""A duck-typed helper with a scripted likelihood profile.

likelihood_helpers / multiproc_helpers use the helper only through batch_marginal_ln_likelihood,
batch_get_posterior_samples, packed_order, internal_units, data.t_ref, prior.poly_trend and
prior.n_offsets.  ScriptedHelper implements exactly that, so that the public sampler methods, the
cache-file decorator, run_worker, batching and pools are all the real code while the likelihood of
each library row is chosen by the test.  Row i of a scripted library has P = i + 1 (days)."""
import collections

import numpy as np


class _NS:
    def __init__(self, **kw):
        self.__dict__.update(kw)


class ScriptedHelper:
    packed_order = ["P", "e", "omega", "M0", "s"]

    def __init__(self, lls, t_ref=None):
        import astropy.units as u

        self.lls = np.asarray(lls, dtype=float)
        self.internal_units = collections.OrderedDict(
            [("P", u.day), ("e", u.one), ("omega", u.rad), ("M0", u.rad), ("s", u.km / u.s), ("K", u.km / u.s),
             ("v0", u.km / u.s)])
        self.data = _NS(t_ref=t_ref)
        self.prior = _NS(poly_trend=1, n_offsets=0)
        self.ll_calls = []  # row ids of every likelihood call (in-process pools only)
        self.post_calls = []

    @staticmethod
    def row_ids(chunk):
        ids = np.rint(np.asarray(chunk)[:, 0]).astype(int) - 1
        return ids

    def batch_marginal_ln_likelihood(self, chunk):
        ids = self.row_ids(chunk)
        self.ll_calls.append(ids.copy())
        return self.lls[ids].copy()

    def batch_get_posterior_samples(self, chunk, n_linear_samples_per, rng):
        chunk = np.asarray(chunk)
        ids = self.row_ids(chunk)
        self.post_calls.append(ids.copy())
        n = len(ids)
        out = np.zeros((n, n_linear_samples_per, 7))
        for k in range(n):
            # consume the generator the way the real kernel does (one multivariate_normal call per sample)
            z = rng.multivariate_normal(np.zeros(2), np.eye(2), size=n_linear_samples_per)
            out[k, :, :5] = chunk[k, :5]
            out[k, :, 5] = ids[k]                       # K  := library row number
            out[k, :, 6] = np.arange(n_linear_samples_per) + 0.001 * z[:, 0]  # v0 := draw number (+ noise)
        ll = np.repeat(self.lls[ids], n_linear_samples_per)
        return out.reshape(n * n_linear_samples_per, 7), ll


def scripted_library(n, ln_prior=True, units=None):
    """JokerSamples whose row i has P = i+1 d and ln_prior = -(i + 0.25) (injective in i).  `units` may name
    other (equivalent) units for the stored columns, e.g. {"P": "yr", "omega": "deg", "M0": "deg", "s": "m/s"}."""
    import astropy.units as u

    import thejoker as tj

    units = units or {}
    un = {"P": u.Unit(units.get("P", "d")), "omega": u.Unit(units.get("omega", "rad")), "M0": u.Unit(units.get("M0", "rad")),
          "s": u.Unit(units.get("s", "km/s"))}
    s = tj.JokerSamples()
    i = np.arange(n, dtype=float)
    s["P"] = ((i + 1) * u.day).to(un["P"])
    s["e"] = (i % 7) / 10.0
    s["omega"] = ((0.01 * i) * u.rad).to(un["omega"])
    s["M0"] = ((0.02 * i + 0.5) * u.rad).to(un["M0"])
    s["s"] = ((0.5 * (i % 3)) * u.km / u.s).to(un["s"])
    if ln_prior:
        s["ln_prior"] = -(i + 0.25)
    return s


def install(joker, helper):
    joker._make_joker_helper = lambda data: helper
    return joker


PROFILES = ["flat", "spike", "ties", "neg_inf", "range", "random", "last_only"]


def make_profile(kind, n, values):
    """Likelihood profile of length n. `values` is a list of n floats in [0,1) drawn by the test."""
    v = np.asarray(values, dtype=float)
    if kind == "flat":
        ll = np.zeros(n) - 3.0
    elif kind == "spike":
        ll = -50.0 - 10 * v
        ll[int(v[0] * n) % n] = 0.0
    elif kind == "ties":
        ll = -np.floor(v * 3)  # values in {0,-1,-2}: many exact ties at and below the maximum
    elif kind == "neg_inf":
        ll = np.where(v < 0.5, -np.inf, -2 * v)
        ll[int(v[-1] * n) % n] = -0.5  # at least one finite value
    elif kind == "range":
        ll = -1e4 * v ** 4 + 700 * v[0]
    elif kind == "last_only":
        ll = np.full(n, -40.0) - v
        ll[-1] = 0.0
    else:
        ll = -5 * v
    return ll
