"""numpy Generator subclasses that record (or steer) the draws thejoker makes, and a pool wrapper that
lets the per-batch child generators created inside run_worker be observed as well.

Recording never changes the stream: every overridden method delegates to the real implementation."""
import copy

import numpy as np


class RecordingGenerator(np.random.Generator):
    def __init__(self, bit_generator):
        super().__init__(bit_generator)
        self.log = []

    def _rec(self, name, args, kwargs, out):
        self.log.append({"name": name, "args": args, "kwargs": kwargs, "out": np.array(out, copy=True)})

    def uniform(self, *a, **k):
        out = super().uniform(*a, **k)
        self._rec("uniform", a, k, out)
        return out

    def random(self, *a, **k):
        out = super().random(*a, **k)
        self._rec("random", a, k, out)
        return out

    def choice(self, *a, **k):
        out = super().choice(*a, **k)
        self._rec("choice", a, k, out)
        return out

    def permutation(self, *a, **k):
        out = super().permutation(*a, **k)
        self._rec("permutation", a, k, out)
        return out

    def shuffle(self, *a, **k):
        out = super().shuffle(*a, **k)
        self._rec("shuffle", a, k, a[0])
        return out

    def integers(self, *a, **k):
        out = super().integers(*a, **k)
        self._rec("integers", a, k, out)
        return out

    def normal(self, *a, **k):
        out = super().normal(*a, **k)
        self._rec("normal", a, k, out)
        return out

    def standard_normal(self, *a, **k):
        out = super().standard_normal(*a, **k)
        self._rec("standard_normal", a, k, out)
        return out

    def multivariate_normal(self, mean, cov, *a, **k):
        out = super().multivariate_normal(mean, cov, *a, **k)
        self.log.append({"name": "multivariate_normal", "mean": np.array(mean, dtype=float, copy=True),
                         "cov": np.array(cov, dtype=float, copy=True), "args": a, "kwargs": k,
                         "out": np.array(out, copy=True)})
        return out

    def calls(self, name):
        return [c for c in self.log if c["name"] == name]


class SteeringGenerator(RecordingGenerator):
    """Like RecordingGenerator, but uniform(size=n) returns values supplied by the test (any array in [0,1)
    is a possible outcome of a real generator).  The real stream is still advanced by the same call."""

    def __init__(self, bit_generator, uniforms=None):
        super().__init__(bit_generator)
        self.steer = list(uniforms) if uniforms is not None else None  # callable(n, call_index) or list of arrays
        self.n_uniform_calls = 0

    def uniform(self, *a, **k):
        real = np.random.Generator.uniform(self, *a, **k)
        out = real
        if self.steer is not None:
            idx = self.n_uniform_calls
            if idx < len(self.steer) and self.steer[idx] is not None:
                f = self.steer[idx]
                out = np.asarray(f(np.shape(real)) if callable(f) else f, dtype=float)
                if np.shape(out) != np.shape(real):
                    # steering array prepared for another size: fall back to the real draw
                    out = real
        self.n_uniform_calls += 1
        self._rec("uniform", a, k, out)
        return out


class RecordingPool:
    """Pool with map/close/size (all TheJoker needs).  Tasks whose last element is a Generator get it
    replaced by a RecordingGenerator over the *same* bit generator, so multivariate_normal arguments
    drawn inside workers can be inspected afterwards.  Everything runs in-process, in task order
    (or in a caller-chosen order, results still returned in task order as a real pool does)."""

    def __init__(self, size=1, order=None):
        self.size = size
        self.order = order
        self.map_calls = []
        self.child_logs = []
        self.child_states = []     # (index of the map call, initial state of the generator handed to each task)
        self.child_state_dicts = []

    def map(self, func, tasks, callback=None):
        tasks = list(tasks)
        wrapped = []
        gens = []
        for t in tasks:
            t = tuple(t)
            if len(t) and isinstance(t[-1], np.random.Generator):
                g = RecordingGenerator(t[-1].bit_generator)
                gens.append(g)
                self.child_states.append((len(self.map_calls), repr(t[-1].bit_generator.state)))
                self.child_state_dicts.append((len(self.map_calls), copy.deepcopy(t[-1].bit_generator.state)))
                t = t[:-1] + (g,)
            wrapped.append(t)
        idx = list(range(len(wrapped)))
        if self.order == "reverse":
            idx = idx[::-1]
        res = [None] * len(wrapped)
        for i in idx:
            res[i] = func(wrapped[i])
        self.map_calls.append({"func": getattr(func, "__name__", repr(func)), "n_tasks": len(tasks),
                               "sizes": [_task_size(t) for t in tasks]})
        for g in gens:
            self.child_logs.append(g.log)
        return res

    def imap_unordered(self, func, tasks):
        """results in completion order (here: reversed) - the sampler must not rely on it for ordered results"""
        return list(self.map(func, tasks))[::-1]

    def close(self):
        pass


def _task_size(t):
    s = t[0]
    if isinstance(s, tuple):
        return int(s[1] - s[0])
    try:
        return len(s)
    except TypeError:
        return None


def overlapping_streams(state_dicts, window=6000, probe=8):
    """Pairs (i, j) of initial bit-generator states whose output streams overlap within `window` raw draws (one is a
    shifted copy of the other).  Independent streams do so with probability ~ 0."""
    raws = []
    for st_ in state_dicts:
        try:
            bg = getattr(np.random, st_["bit_generator"])()
            bg.state = copy.deepcopy(st_)
            raws.append(np.asarray(bg.random_raw(window + probe), dtype=np.uint64))
        except Exception:
            raws.append(None)
    hits = []
    for i, a in enumerate(raws):
        for j, b in enumerate(raws):
            if i == j or a is None or b is None:
                continue
            # does the beginning of stream j occur inside stream i?
            for pos in np.where(a[:window] == b[0])[0]:
                if np.array_equal(a[pos:pos + probe], b[:probe]):
                    hits.append((i, j, int(pos)))
                    break
    return hits
