#!/usr/bin/env python3
"""Regenerate MANIFEST.json from the table below (keeps it schema-valid at all times)."""
import json, os
HERE = os.path.dirname(os.path.dirname(os.path.abspath(__file__)))
ALL = ["C%02d" % i for i in range(1, 20)]

KERNEL_NOTE = ("Trusted base: numpy/scipy linear algebra (float64 + own longdouble Cholesky), astropy unit conversion, twobody's "
               "Kepler solver for the K column (the same C function the kernel calls, invoked independently), Hypothesis. The compiled "
               "kernel is rebuilt from the working tree's generated fast_likelihood.c (no Cython in this sandbox: .pyx-only edits "
               "cannot take effect, stated in the evidence). Tolerance is the round-off model of DESIGN 4.2; absence of violations is "
               "'held on everything explored'.")

CHECKS = {
 "C01": dict(
  category="exploration",
  text="Generated-input search (Hypothesis): data sets x prior configurations x nonlinear rows x execution path, each value of "
       "TheJoker.marginal_ln_likelihood compared with an independent closed form ln N(y|M mu, C+s^2 I+M Lambda M^T). Recorded defects "
       "(F1 jitter ignored, F2 custom-K slot, F4 P0 unit, F5 survey labels) are recognised by exact adjusted closed forms; every other "
       "difference is a violation. Exploration is the right level: the domain is an unbounded product space with a cheap exact oracle.",
  design_ref="DESIGN.md 4.1, 4.2, 5/C01, 6", note=KERNEL_NOTE,
  technique="property-based testing (Hypothesis) against a closed-form reference model"),
 "C02": dict(
  category="exploration",
  text="Generated (library, likelihood profile, option set, seed) cases run through the real rejection_sample (all three execution "
       "paths, real batching/pools) with a scripted likelihood helper and a recording or steering Generator; the acceptance rule is "
       "re-executed on the captured choice/uniform draws and compared with the returned rows bit-for-bit (rows, order, truncation, "
       "exactly one uniform call, each row's likelihood requested once). Steered draws place uniforms just below/above each ratio "
       "and at 0. A second search does the same with the real kernel on generated data.",
  design_ref="DESIGN.md 4.3, 4.4, 5/C02",
  note="Trusts numpy exp/compare and the Generator subclassing mechanism (recording does not change the stream). The scripted helper "
       "replaces only the likelihood values; every line of the rejection/batching code is the repository's.",
  technique="property-based testing with captured/steered random draws and re-execution oracle"),
 "C03": dict(
  category="exploration",
  text="Generated problems pushed through rejection_sample with a recording Generator (in memory) or a recording pool that wraps "
       "the per-batch child generators (cache/file path): the (mean, cov, size) arguments of every multivariate_normal call are "
       "compared with the closed-form conditional posterior (a, A, n_linear_samples), the returned linear columns with the recorded "
       "draws (column order, units) and the nonlinear columns with the input row. A second, interposition-free search tests >=4000 "
       "draws per row against N(a, A) (KS / mean / covariance / lag-1, p<1e-9). Defects F1-F5 recognised by exact signatures.",
  design_ref="DESIGN.md 4.2, 4.3, 5/C03, 6", note=KERNEL_NOTE + " numpy's multivariate_normal is trusted to draw from the (mean, cov) it is given.",
  technique="property-based testing: captured-argument differential against closed form + statistical goodness-of-fit"),
 "C04": dict(
  category="exploration",
  text="Generated problems with hand-built rows (arbitrary linear values) and rows returned by rejection_sample: RV curve of "
       "get_orbit() vs. design matrix x parameters with an independent Kepler solve at data and off-data epochs; t_ref of sampler "
       "output; ln_unmarginalized_likelihood vs. the Gaussian sum on offset-corrected data; Bayes identity with the closed-form "
       "marginal; reported ln_likelihood vs. closed form (recorded kernel defects recognised).",
  design_ref="DESIGN.md 4.2, 5/C04", note=KERNEL_NOTE + " The identity is evaluated with the closed-form marginal on the left so that the kernel defects F1/F2/F4 do not mask errors of the right-hand side.",
  technique="property-based differential testing (two code paths vs. an independent reference model)"),
 "C05": dict(
  category="exploration",
  text="Rule-based state machine (Hypothesis stateful): one problem, one probe library with pairwise distinct likelihoods and "
       "extreme rows, one persistent kernel helper; rules = likelihood calls over subsets/permutations through every execution path "
       "and batching with a fresh or the persistent helper, equal-seed rejection sampling across paths and a MultiPool, direct "
       "posterior draws on extreme rows, dill round trip, MultiPool likelihoods. After every step the values must be bit-identical "
       "to those of a fresh helper and in input order; accepted sets must agree across paths.",
  design_ref="DESIGN.md 5/C05", note="The harness does not own the OS schedule of MultiPool workers; workers share no state, so order-independence of results is what is checked. "
       "Bit-equality across paths is demanded with the library stored in internal units (conversion factors are exactly 1).",
  technique="stateful property testing (history/path metamorphic relation, bit-equality oracle)"),
 "C06": dict(
  category="exploration",
  text="Scripted libraries whose ln_prior encodes the row number; all option combinations of rejection_sample and "
       "iterative_rejection_sample with return_logprobs / return_all_logprobs; per-row provenance oracle for ln_prior, ln_likelihood "
       "and the all-likelihoods array. Found and led to two fix: commits (structured ln_prior column on the file path; "
       "length error for n_linear_samples>1).",
  design_ref="DESIGN.md 4.4, 5/C06, 6",
  note="Row identity is read from the period column (P = row+1), likelihoods from the scripted table; real kernel provenance is "
       "covered by C02's end-to-end search.",
  technique="property-based testing with provenance-encoding inputs"),
 "C07": dict(
  category="exploration",
  text="Metamorphic testing over unit assignments: a problem in canonical units and a twin with every unit slot (data, each prior "
       "parameter, P0/sigma_K0/max_K, jitter, each library column) redrawn; checks the Jacobian-constant relation of the likelihood, "
       "equality of the accepted set for equal seeds and the scaling of the (mean, cov) of the linear draw. F4 (P0 unit) recognised "
       "by its exact closed-form signature.",
  design_ref="DESIGN.md 5/C07, 6", note=KERNEL_NOTE,
  technique="metamorphic property-based testing (unit-transformed twins)"),
 "C08": dict(
  category="exploration",
  text="Generated multi-survey inputs (1-4 surveys, all time layouts, list/tuple/dict, units) with tagged observations: merged multiset, "
       "per-row label recovery, offset-indicator columns, plus the C01 closed-form comparison on multi-survey problems with a guard "
       "that labels matter. The label defect F5 (ids not re-sorted) is recognised exactly and reported as a known finding.",
  design_ref="DESIGN.md 5/C08, 6", note=KERNEL_NOTE,
  technique="property-based testing with tagged observations (provenance oracle) + closed-form differential"),
 "C09": dict(
  category="exploration",
  text="Generated parameters/evaluation points for the exported distribution classes (pm.logp vs. closed forms, numeric "
       "normalisation, support edges) and generated whole priors: 4000-20000 draws per configuration tested against closed-form "
       "CDFs (KS, p<1e-9 fails), and ln_prior vs. the sum of declared log-densities up to one constant. Led to two fix: commits "
       "(UniformLog.logp; K term of ln_prior).",
  design_ref="DESIGN.md 5/C09, 6", note="Statistical tests have a 1e-9 threshold with fixed seeds; distributional errors below a few per cent can pass. Density comparisons use 1e-6 "
       "(pytensor keeps float32-representable constants in single precision).",
  technique="property-based testing: closed-form density oracle + goodness-of-fit tests on generated priors"),
 "C10": dict(
  category="exploration",
  text="Generated call histories (nine entry points incl. prior samples by count, iterative sampling, read_batch) executed twice "
       "with fresh objects and equal seeds - the second time with reseeded global generators and in a tenth of the cases on a "
       "MultiPool: bit-identical outputs, byte-identical global numpy/random state around every call, and no repeated "
       "linear-parameter vector between batches (library rows are duplicated on purpose so that equal streams would show) or "
       "between successive calls. Led to one fix: commit (prior samples by count ignored the generator).",
  design_ref="DESIGN.md 5/C10, 6", note="pymc's pm.draw(random_seed=Generator) is trusted to confine itself to the generator it is given (checked only through the global-state sentinels).",
  technique="property-based testing over call histories (determinism / isolation oracles)"),
 "C11": dict(
  category="exploration",
  text="Generated prior/data configurations: setup_mcmc once per configuration, model compiled once and evaluated at many generated "
       "parameter points: model_rv vs. the sampler's design matrix (independent Kepler solve), model.logp(jacobian=False) vs. "
       "declared priors + Gaussian term up to one constant, ln_likelihood / ln_prior diagnostics, mcmc_init vs. chosen sample. "
       "Led to two fix: commits (jitter missing in ln_likelihood; parameters not converted from prior units).",
  design_ref="DESIGN.md 5/C11, 6", note="Trusts pymc's replace_rvs_by_values / compile_fn and its transforms (log, logodds, interval) to map value variables to physical values. "
       "Angles are evaluated on the unit circle of the pymc_ext angle parametrisation (its regulariser is constant there). F5 (labels) recognised.",
  technique="property-based differential testing of two model implementations over generated parameter points"),
 "C12": dict(
  category="exploration",
  text="Rule-based state machine (Hypothesis stateful) over a scratch directory: write / refused write / overwrite / same-schema "
       "append / single-incompatibility appends / read / group round trip / FITS round trip / read_batch in all request forms, "
       "judged after every step against an in-memory model of what was successfully written (bit-identical values, names, order, "
       "units, t_ref, poly_trend, n_offsets) and byte hashes for refused operations. Led to one fix: commit (append with a different "
       "number of columns was accepted).",
  design_ref="DESIGN.md 5/C12, 6", note="Trusts h5py/PyTables/astropy.io for the byte-level format; FITS stores t_ref as one float64 BMJD (tolerance 1e-9 d). "
       "Reading through a PyTables Group is documented as unsupported (variable-length strings) and not exercised.",
  technique="stateful (model-based) property testing against an in-memory reference model"),
 "C13": dict(
  category="fault_enumeration",
  text="For each generated configuration (API x source x options x pool) a dry run counts the invocations of 13 instrumented "
       "internal call sites and the task start indices; every k-th invocation of every site and every worker task is then made to "
       "fail once (four exception types incl. a BaseException subclass). Oracle: exception reaches the caller, no HDF5 file left in "
       "the private TMPDIR, user file hash unchanged, next calls on the same object reproduce the baseline.",
  design_ref="DESIGN.md 5/C13", note="Faults are injected at Python call boundaries via mock.patch on module attributes, a Generator subclass, a pool wrapper and a "
       "helper proxy (no repository edits). Interpreter crashes / SIGKILL are not simulated. Under MultiPool, worker-side faults are keyed by task start index.",
  technique="systematic fault injection (complete enumeration of k-th-call faults per generated configuration)"),
 "C14": dict(
  category="exploration",
  text="Generated libraries/profiles/requests/budgets/growth parameters through the real iterative_rejection_sample (3 paths) with "
       "captured draws: budget, repeat-free prefix evaluation, acceptance against the running maximum with the last uniform array, "
       "result type, mandatory raise for too-small libraries; plus the real kernel incl. finite-but-overflowing velocities. Found and "
       "led to two fix: commits (exception object returned; in-memory path ignored max_prior_samples).",
  design_ref="DESIGN.md 4.4, 5/C14, 6",
  note="The growth schedule itself (magic numbers) is not part of the oracle; only the invariants the property states are.",
  technique="property-based testing with captured random draws and invariant oracle over the iteration history"),
 "C15": dict(
  category="exploration",
  text="Generated observation sets (unsorted, duplicated times, float/Time tcb/utc input, independent rv/err units, 1-D errors or "
       "covariances, NaN/inf injections, clean on/off, t_ref choices) with a serial-number tag in every observation; oracle = retained "
       "multiset, time order, pairing by tag, units, ivar, default/explicit t_ref, copy() and slicing/indexing. Led to one fix: commit "
       "(copy() dropped t_ref).",
  design_ref="DESIGN.md 5/C15, 6", note="Trusts astropy Time scale conversion (used identically by the harness to predict stored BMJD values). "
       "Data sets without any finite observation are outside the domain (not constructible).",
  technique="property-based testing with tagged observations (provenance oracle)"),
 "C16": dict(
  category="exploration",
  text="Exhaustive enumeration of batch_tasks on a bounded box (n_tasks<=160 x n_batches<=200 x 4 start indices x "
       "{ranges, array}; thorough 448x560) plus Hypothesis search over values up to 1e9/1e12 and over run_worker's own "
       "choice of batch count (pool sizes 0..8, n_prior_samples, samples_idx) against the partition predicate. "
       "Exhaustive inside the box, sampled outside; arithmetic is pure integer so the box covers every remainder class.",
  design_ref="DESIGN.md 5/C16",
  note="Trusts Python integer arithmetic and numpy slicing. Outside the enumerated box the claim is 'held on all sampled values'.",
  technique="exhaustive enumeration + Hypothesis generated inputs vs. partition predicate"),
 "C17": dict(
  category="exploration",
  text="Generated sample tables (sign of K, angle ranges/units, period units, trends, offsets, metadata) and index expressions; "
       "oracle = RV-curve invariance under wrap_K via an independent Kepler solve, mean-anomaly equation for get_t0 / "
       "get_time_with_phase, pack/unpack round trip, metadata/unit preservation of indexing/copy/mean/std/median_period, "
       "membership and median property of median_period.",
  design_ref="DESIGN.md 5/C17", note="Independent Newton/bisection Kepler solver in longdouble (vt/oracle_gauss.py) is the reference for RV curves.",
  technique="property-based testing: metamorphic (RV invariance) + round-trip + invariant oracles"),
 "C18": dict(
  category="exploration",
  text="Grammar-based generation of valid prior specifications and single-fault corruptions (omitted / unit-less / wrongly "
       "dimensioned parameter, nine non-Normal laws for every linear parameter and offset, misnamed offset, non-numeric poly_trend, "
       "wrong power of time) and of data arguments (all container kinds x source counts x offset counts, non-RVData element, "
       "covariance sources, non-iterables) through three sampler entry points. Oracle: corrupted => raises (priors at construction), "
       "valid => accepted with par_names in (nonlinear, linear, offsets) order and finite likelihoods.",
  design_ref="DESIGN.md 5/C18", note="'Raises' accepts any exception type, as the property does. The histogram of (fault kind x parameter) cells is in the evidence.",
  technique="grammar-based negative testing (generated single-fault corruptions)"),
 "C19": dict(
  category="exploration",
  text="Generated observing patterns (a third with the largest empty arc across phase 1->0), periods, bin counts, sample tables with "
       "ties; oracle = brute-force definitions plus permutation and time-reversal metamorphic relations. Led to one fix: commit "
       "(max_phase_gap ignored the wrap-around arc).",
  design_ref="DESIGN.md 5/C19, 6", note="Phases within 1e-9 of a bin edge are treated as ambiguous for phase_coverage; ties in MAP_sample may resolve to any maximiser.",
  technique="property-based testing against brute-force definitions + metamorphic relations"),
}

def main():
    checks = []
    for pid in ALL:
        if pid not in CHECKS:
            continue
        c = CHECKS[pid]
        checks.append({
            "property_id": pid,
            "quick_cmd": "./check %s --tier quick" % pid,
            "thorough_cmd": "./check %s --tier thorough" % pid,
            "evidence_file": "/verif/evidence/%s.json" % pid,
            "replay_cmd_template": "./check %s --replay {path}" % pid,
            "engine": "vt",
            "level_claimed": {"category": c["category"], "text": c["text"], "design_ref": c["design_ref"]},
            "level_note": c["note"],
            "technique": c["technique"],
        })
    na = [{"property_id": p, "reason": "check not built yet (work in progress; see DESIGN.md section 5 for the plan)"}
          for p in ALL if p not in CHECKS]
    m = {
        "version": 1,
        "setup_cmd": "sh ./setup.sh",
        "hooks": {"guard": "THEJOKER_VERIF", "enable": "no source hooks are needed: every observation point is reachable "
                  "from outside (Generator subclasses, pool objects, mock.patch); ./check exports THEJOKER_VERIF=1 for uniformity",
                  "baseline_off_cmd": "cd /repo && /venv/bin/python -m pytest -ra -q -p no:cacheprovider --timeout=900 --continue-on-collection-errors",
                  "source_commits": [], "add_only": True},
        "engines": [{"name": "vt", "path": "/verif/vt", "serves_properties": [c["property_id"] for c in checks],
                     "kind_free_text": "Hypothesis (generated inputs, rule-based state machines, fault schedules) + plain enumeration, "
                     "explicit oracles, shrinking to JSON replay files; runner in vt/runner.py"}],
        "checks": checks,
        "not_applicable": na,
        "notes": "Run from /verif. ./check <ID> --tier quick|thorough; VERIF_SEED selects the Hypothesis seed. "
                 "Exit 0 held / 1 VIOLATION / 2 harness error. known_findings.json lists recorded genuine defects.",
    }
    if not na:
        del m["not_applicable"]
    with open(os.path.join(HERE, "MANIFEST.json"), "w") as f:
        json.dump(m, f, indent=1)
    print("MANIFEST.json: %d checks, %d not claimed" % (len(checks), len(na)))

if __name__ == "__main__":
    main()
