"""C16 - work partitioning covers every prior sample exactly once, in order."""
import os

import numpy as np
from hypothesis import strategies as st

from vt.runner import Violation

RULE = ("(a) exhaustive enumeration of batch_tasks over n_tasks x n_batches x start_idx x {index ranges, explicit "
        "array}; (b) Hypothesis-generated large values; (c) run_worker driven with generated file sizes, n_batches, "
        "n_prior_samples / samples_idx and pool sizes through a recording pool. Oracle: partition predicate "
        "(non-empty, contiguous, ordered, disjoint batches whose union is exactly the requested range / array slice, "
        "each task carrying its own start index, extra args passed through). Non-trivial: more than one batch "
        "requested and n_tasks not a multiple of n_batches, or n_batches > n_tasks, or start_idx > 0; distinct by "
        "case fingerprint.")
SHARDS = {"quick": 2, "thorough": 16}


def check_partition(case, tasks):
    n_tasks, n_batches, start, use_arr = case["n_tasks"], case["n_batches"], case["start"], case["arr"]
    if not isinstance(tasks, list) or len(tasks) == 0:
        raise Violation("no tasks produced", tasks=repr(tasks)[:200])
    pos = start
    if use_arr:
        arr = _arr(case)
        exp = arr[start:start + n_tasks]
    for k, t in enumerate(tasks):
        if len(t) != 2 + 2:
            raise Violation("task %d does not carry (batch, start index, *args)" % k, task=repr(t)[:200])
        if t[2] != "argA" or t[3] != 17:
            raise Violation("extra args not passed through", task=repr(t)[:200])
        if use_arr:
            b = np.asarray(t[0])
            if len(b) == 0:
                raise Violation("empty batch %d" % k)
            if not np.array_equal(b, arr[pos:pos + len(b)]):
                raise Violation("batch %d is not the next contiguous block of the array" % k,
                                got=b[:8].tolist(), want=arr[pos:pos + len(b)][:8].tolist())
            if t[1] != pos:
                raise Violation("task %d carries start index %r but its first element is at %d" % (k, t[1], pos))
            pos += len(b)
        else:
            a, b = t[0]
            if a != pos:
                raise Violation("batch %d starts at %r, previous batch ended at %d" % (k, a, pos))
            if not b > a:
                raise Violation("empty or reversed batch %d: (%r, %r)" % (k, a, b))
            if t[1] != a:
                raise Violation("task %d carries start index %r but its range starts at %r" % (k, t[1], a))
            pos = b
    if pos != start + n_tasks:
        raise Violation("batches end at %d, requested range ends at %d" % (pos, start + n_tasks))
    if use_arr and sum(len(t[0]) for t in tasks) != len(exp):
        raise Violation("array batches do not add up to the requested slice")


def _arr(case):
    # distinct, non-monotone values so that any reordering shows
    n = case["start"] + case["n_tasks"] + 3
    return (np.arange(n, dtype=np.int64) * 7919) % 100003 + 5


def body_factory(ctx):
    from thejoker.utils import batch_tasks

    def body(case):
        arr = _arr(case) if case["arr"] else None
        nt_, nb_, st_ = case["n_tasks"], case["n_batches"], case["start"]
        if case.get("np_ints"):
            # callers pass numpy integers too (len() of arrays, pool sizes, ...)
            nt_, nb_, st_ = np.int64(nt_), np.int64(nb_), np.int64(st_)
        with ctx.sut("batch_tasks"):
            tasks = batch_tasks(nt_, nb_, arr=arr, args=("argA", 17), start_idx=st_)
        check_partition(case, tasks)
        nt, nb = case["n_tasks"], case["n_batches"]
        nontrivial = (nb > 1 and nt % nb != 0) or nb > nt or case["start"] > 0
        cls = ["arr" if case["arr"] else "range",
               "nb>nt" if nb > nt else ("nb==nt" if nb == nt else ("rem" if nt % nb else "even"))]
        ctx.note_case(case, nontrivial, cls)

    return body


def run_worker_body_factory(ctx):
    import astropy.units as u

    from thejoker import JokerSamples
    from thejoker.multiproc_helpers import run_worker

    files = {}

    def get_file(n):
        if n not in files:
            s = JokerSamples()
            s["P"] = np.arange(1, n + 1, dtype=float) * u.day
            s["e"] = np.zeros(n)
            path = os.path.join(ctx.workdir, "rw%d.hdf5" % n)
            s.write(path, overwrite=True)
            files[n] = path
        return files[n]

    class Pool:
        def __init__(self, size):
            self.size = size
            self.calls = 0

        def map(self, f, tasks):
            self.calls += 1
            self.tasks = list(tasks)
            return [f(t) for t in self.tasks]

        def imap_unordered(self, f, tasks):
            # what real pools offer besides map(): results in completion order (here: reversed)
            return [f(t) for t in list(tasks)][::-1]

        def close(self):
            pass

    def worker(task):
        return task

    def body(case):
        n_file = case["n_file"]
        path = get_file(n_file)
        pool = Pool(case["pool_size"])
        kw = {}
        if case["mode"] == "idx":
            idx = np.array(case["idx"], dtype=np.int64)
            kw["samples_idx"] = idx
            want_n = len(idx)
        elif case["mode"] == "n":
            kw["n_prior_samples"] = case["n_prior"]
            want_n = case["n_prior"]
        else:
            want_n = n_file
        rng = np.random.default_rng(case["rng_seed"]) if case["rng_seed"] is not None else None
        with ctx.sut("run_worker"):
            res = run_worker(worker, pool, path, task_args=("argA", 17), n_batches=case["n_batches"], rng=rng, **kw)
        if pool.calls != 1:
            raise Violation("pool.map called %d times" % pool.calls)
        if len(res) != len(pool.tasks) or any(r is not t for r, t in zip(res, pool.tasks)):
            raise Violation("results are not returned in task order")
        nb = case["n_batches"] if case["n_batches"] is not None else max(1, case["pool_size"])
        pcase = {"n_tasks": want_n, "n_batches": nb, "start": 0, "arr": case["mode"] == "idx"}
        pos = 0
        gens = []
        for k, t in enumerate(res):
            t = list(t)
            if rng is not None:
                g = t.pop()
                if not isinstance(g, np.random.Generator):
                    raise Violation("task %d has no child generator" % k)
                gens.append(g)
            if len(t) != 4 or t[2] != "argA" or t[3] != 17:
                raise Violation("task %d malformed" % k, task=repr(t)[:200])
            if case["mode"] == "idx":
                b = np.asarray(t[0])
                if len(b) == 0 or not np.array_equal(b, idx[pos:pos + len(b)]):
                    raise Violation("index batch %d is not the next block of samples_idx" % k)
                pos += len(b)
            else:
                a, b = t[0]
                if a != pos or not b > a:
                    raise Violation("range batch %d = (%r,%r) after position %d" % (k, a, b, pos))
                pos = b
        if pos != want_n:
            raise Violation("tasks cover %d rows, %d requested" % (pos, want_n))
        if gens:
            firsts = [g.bit_generator.state["state"]["state"] for g in gens]
            if len(set(firsts)) != len(firsts):
                raise Violation("two batches received generators in the same state")
        ctx.note_case(case, len(res) > 1 or case["mode"] != "all",
                      ["rw:" + case["mode"], "rw:batches=%s" % ("1" if len(res) == 1 else ">1"),
                       "rw:n_batches=None" if case["n_batches"] is None else "rw:n_batches=int"])
        del pcase

    return body


@st.composite
def rw_cases(draw):
    n_file = draw(st.integers(1, 40))
    mode = draw(st.sampled_from(["all", "n", "idx"]))
    case = {"n_file": n_file, "mode": mode, "pool_size": draw(st.integers(0, 8)),
            "n_batches": draw(st.one_of(st.none(), st.integers(1, n_file + 4))),
            "rng_seed": draw(st.one_of(st.none(), st.integers(0, 2**31)))}
    if mode == "n":
        case["n_prior"] = draw(st.integers(1, n_file))
    if mode == "idx":
        case["idx"] = draw(st.lists(st.integers(0, n_file - 1), min_size=1, max_size=n_file + 3))
    return case


def run(ctx):
    body = body_factory(ctx)
    NT, NB = ctx.pick((160, 200), (448, 560))
    starts = (0, 1, 7, 1103)

    def box():
        for nt in range(1, NT + 1):
            for nb in range(1, NB + 1):
                for s in starts:
                    for arr in (False, True):
                        yield {"n_tasks": nt, "n_batches": nb, "start": s, "arr": arr}

    ctx.enumerate("box", box(), body)
    ctx.exhaustive = True
    ctx.extra["exhaustive_box"] = "n_tasks 1..%d x n_batches 1..%d x start_idx %s x {range, array}" % (NT, NB, list(starts))

    @st.composite
    def big_range(draw):
        nt = draw(st.integers(1, 10**9))
        # the loop is O(n_batches): keep n_batches small, or larger than n_tasks (single-batch fallback)
        nb = draw(st.one_of(st.integers(1, min(nt, 3000)), st.integers(nt + 1, 10**12)))
        return {"n_tasks": nt, "n_batches": nb, "start": draw(st.integers(0, 10**9)), "arr": False,
                "np_ints": draw(st.booleans())}

    big_arr = st.builds(
        lambda nt, nb, s: {"n_tasks": nt, "n_batches": nb, "start": s, "arr": True},
        st.integers(1, 200000), st.integers(1, 3000), st.integers(0, 50000))
    ctx.search("large", st.one_of(big_range(), big_arr), body, quick=400, thorough=8000)
    ctx.search("run_worker", rw_cases(), run_worker_body_factory(ctx), quick=300, thorough=6000)
