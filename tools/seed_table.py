#!/usr/bin/env python3
"""Markdown table of the seeded changes under /verif/seeded (for DESIGN.md 10.6)."""
import json, os
rows = []
root = "/verif/seeded"
for name in sorted(os.listdir(root)):
    mp = os.path.join(root, name, "meta.json")
    if not os.path.exists(mp):
        continue
    m = json.load(open(mp))
    v = m.get("validation", {})
    ran = "; ".join("%s: %s" % (r["check"], r["verdict"]) for r in v.get("ran", []))
    rows.append("| %s | %s | %s | %s | %s |" % (name, (m.get("title") or "").replace("|", "/")[:90], (m.get("needs_to_manifest") or "").replace("|", "/").replace("\n", " ")[:160],
                                             "yes" if v.get("valid") else "NO", ran))
print("| seed | change | needs to manifest | validated (demo passes/fails, suite 50/50) | our checks |")
print("|------|--------|-------------------|------|------|")
print("\n".join(rows))
