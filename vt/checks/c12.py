"""C12 - sample files round-trip exactly and batch reads return the rows asked for."""
import hashlib
import os
import shutil

import numpy as np
from hypothesis import strategies as st
from hypothesis.stateful import precondition, rule

from vt import oracle_gauss as og
from vt.machine import LoggedMachine
from vt.runner import Violation

RULE = ("Rule-based state machine over a scratch directory. Tables: 1-20 rows, a random subset (any order) of the valid "
        "columns incl. ln_prior / ln_likelihood, arbitrary finite float64 values (-0.0, subnormals, 1e+-300), random "
        "equivalent units, t_ref in {None, Time tcb/utc in mjd/jd/isot format}, poly_trend 1-3, n_offsets 0-2. Rules: "
        "write new; write existing without overwrite; overwrite; append same schema; append with one incompatibility "
        "{extra column, missing column, reordered columns, other unit, other t_ref, other poly_trend / n_offsets}; read; "
        "write/read/append through an h5py.Group; FITS write/read; read_batch with slice (steps, negative bounds), "
        "tuple, index array (unsorted, repeated), integer (random subset with a generator) and unit conversion. Oracle: "
        "an in-memory model of everything successfully written: read -> same column names and order, bit-identical "
        "values, equal units, t_ref, poly_trend, n_offsets; a refused operation leaves the SHA-256 of the file "
        "unchanged; a same-schema append must succeed and yield model ++ table; an append that changes the column set "
        "must be refused; read_batch -> model[columns][rows] x unit factor with rows exactly as requested. A history "
        "is non-trivial when it contains an append or an overwrite followed by a read."
        " Also: single-precision schemas and appends of the other float width; rows without a reference epoch appended to a table that has one; extra metadata entries on refused appends; two tables per file read through groups and through filename + path; index arrays that are permuted blocks / repeats with gaps; search 'random_batch' (files of 150-20000 rows, sizes around rows/100: distinct rows).")
SHARDS = {"quick": 4, "thorough": 16}
BUDGET = {"quick": 80, "thorough": 800}

SPECIAL = [0.0, -0.0, 5e-324, 1e-300, 1e300, -1e300, 1.0, np.pi]


def schema_from_seed(seed):
    g = np.random.default_rng(seed)
    poly = int(g.integers(1, 4))
    noff = int(g.integers(0, 3))
    valid = (["P", "e", "omega", "M0", "s", "K"] + ["v%d" % i for i in range(poly)] + ["dv0_%d" % (i + 1) for i in range(noff)]
             + ["ln_prior", "ln_likelihood"])
    k = int(g.integers(1, len(valid) + 1))
    cols = [valid[i] for i in g.permutation(len(valid))[:k]]
    units = {}
    for c in cols:
        if c == "P":
            units[c] = str(g.choice(["d", "yr", "h"]))
        elif c in ("omega", "M0"):
            units[c] = str(g.choice(og.ANG_UNITS))
        elif c in ("e", "ln_prior", "ln_likelihood"):
            units[c] = ""
        elif c[0] == "v" and c != "v0":
            i = int(c[1:])
            units[c] = "%s/%s%s" % (g.choice(og.VEL_UNITS), g.choice(["d", "yr"]), "" if i == 1 else "^%d" % i)
        else:
            units[c] = str(g.choice(og.VEL_UNITS))
    tk = int(g.integers(0, 5))
    t_ref = None
    if tk:
        t_ref = {"mjd": round(float(g.uniform(50000, 59000)), 6), "scale": ["tcb", "utc"][tk % 2], "format": ["mjd", "jd", "isot"][tk % 3]}
        if g.random() < 0.15:
            # simulated data whose times are bare numbers starting at 0 have their reference epoch at BMJD 0
            t_ref = {"mjd": 0.0, "scale": "tcb", "format": "mjd"}
    # a library drawn in single precision (prior.sample(dtype=float32)) is stored as such
    return {"poly": poly, "noff": noff, "cols": cols, "units": units, "t_ref": t_ref,
            # all columns double, all single, or a mixture (columns assigned one by one may differ in precision)
            "f4": [False, False, False, True, [c for c in cols if g.random() < 0.5]][int(g.integers(0, 5))]}


def is_f4(f4, c):
    return (c in f4) if isinstance(f4, (list, tuple)) else bool(f4)


def values_from_seed(seed, n, cols, f4=False):
    g = np.random.default_rng(seed)
    out = {}
    for c in cols:
        v = g.normal(size=n) * 10.0 ** g.integers(-3, 4, size=n)
        sp = g.random(n) < 0.15
        v[sp] = g.choice(SPECIAL, size=int(sp.sum()))
        if is_f4(f4, c):
            with np.errstate(over="ignore", under="ignore"):
                v = v.astype(np.float32).astype(float)
            v[~np.isfinite(v)] = 1.0
        out[c] = v
    return out


def make_time(tr):
    from astropy.time import Time

    if tr is None:
        return None
    t = Time(tr["mjd"], format="mjd", scale="tcb")
    if tr["scale"] == "utc":
        t = t.utc
    t.format = tr["format"]
    return t


def make_samples(schema, vals):
    import thejoker as tj

    s = tj.JokerSamples(poly_trend=schema["poly"], n_offsets=schema["noff"], t_ref=make_time(schema["t_ref"]))
    for c in schema["cols"]:
        un = schema["units"][c]
        v = np.asarray(vals[c], dtype=np.float32 if is_f4(schema.get("f4"), c) else float)
        s[c] = v * og.unit(un) if un else v
    return s


def sha(path):
    with open(path, "rb") as f:
        return hashlib.sha256(f.read()).hexdigest()


def same_time(a, b, tol_day=0.0):
    if a is None or b is None:
        return a is None and b is None
    return abs((a.tcb - b.tcb).to_value("day")) <= tol_day


def compare(read, schema, vals, what, fits=False):
    cols = schema["cols"]
    if list(read.par_names) != cols:
        raise Violation("%s: column names / order changed" % what, got=list(read.par_names), want=cols)
    n = len(next(iter(vals.values())))
    if len(read) != n:
        raise Violation("%s: %d rows read, %d written" % (what, len(read), n))
    for c in cols:
        un = schema["units"][c]
        want_u = og.unit(un)
        col = read[c]
        if col.unit != want_u:
            raise Violation("%s: unit of %s changed from %s to %s" % (what, c, want_u, col.unit))
        a = np.asarray(col.value, dtype=float)
        b = vals[c]
        if not (np.array_equal(a, b) and np.array_equal(np.signbit(a), np.signbit(b))):
            raise Violation("%s: values of column %s are not bit-identical" % (what, c), got=a[:6], want=b[:6])
    if int(read.poly_trend) != schema["poly"] or int(read.n_offsets) != schema["noff"]:
        raise Violation("%s: poly_trend / n_offsets changed" % what, got=(read.poly_trend, read.n_offsets))
    if not same_time(read.t_ref, make_time(schema["t_ref"]), 1e-9 if fits else 0.0):
        raise Violation("%s: reference epoch changed" % what, got=repr(read.t_ref), want=repr(make_time(schema["t_ref"])))
    if not fits and read.t_ref is not None:
        tr = make_time(schema["t_ref"])
        if read.t_ref.scale != tr.scale:
            raise Violation("%s: time scale of t_ref changed" % what, got=read.t_ref.scale, want=tr.scale)


def machine_factory(ctx):
    import h5py

    import thejoker as tj
    from thejoker.utils import read_batch

    class Files(LoggedMachine):
        def setup(self):
            self.dir = os.path.join(ctx.workdir, "c12-%d" % id(self))
            os.makedirs(self.dir, exist_ok=True)
            self.model = {}      # name -> (schema, vals)
            self.reads_after_change = 0
            self.changed = False
            self.ops = []

        def cleanup(self):
            shutil.rmtree(self.dir, ignore_errors=True)

        def path(self, k, ext=".hdf5"):
            return os.path.join(self.dir, "f%d%s" % (k, ext))

        # ------------------------------------------------------------------ rules (arguments are small ints)
        @rule(k=st.integers(0, 2), seed=st.integers(0, 10**6), n=st.integers(1, 20))
        def write(self, k, seed, n):
            self.step("write", k=k, seed=seed, n=n)

        @rule(k=st.integers(0, 2), seed=st.integers(0, 10**6), n=st.integers(1, 20))
        def overwrite(self, k, seed, n):
            self.step("overwrite", k=k, seed=seed, n=n)

        @precondition(lambda self: bool(self.model))
        @rule(k=st.integers(0, 2), seed=st.integers(0, 10**6), n=st.integers(1, 12))
        def append_same(self, k, seed, n):
            self.step("append_same", k=k, seed=seed, n=n)

        @precondition(lambda self: bool(self.model))
        @rule(k=st.integers(0, 2), seed=st.integers(0, 10**6), n=st.integers(1, 6),
              kind=st.sampled_from(["extra", "missing", "reorder", "unit", "t_ref", "poly", "noff", "dtype"]))
        def append_bad(self, k, seed, n, kind):
            self.step("append_bad", k=k, seed=seed, n=n, kind=kind)

        @precondition(lambda self: bool(self.model))
        @rule(k=st.integers(0, 2))
        def read(self, k):
            self.step("read", k=k)

        @precondition(lambda self: bool(self.model))
        @rule(k=st.integers(0, 2), seed=st.integers(0, 10**6), how=st.sampled_from(["slice", "slice_step", "slice_neg", "tuple", "idx", "idx_block", "idx_block", "idx_gaps", "int"]))
        def batch(self, k, seed, how):
            self.step("batch", k=k, seed=seed, how=how)

        @rule(seed=st.integers(0, 10**6), n=st.integers(1, 10), append=st.booleans())
        def group(self, seed, n, append):
            self.step("group", seed=seed, n=n, append=append)

        @rule(seed=st.integers(0, 10**6), n=st.integers(1, 10))
        def fits(self, seed, n):
            self.step("fits", seed=seed, n=n)

        # ------------------------------------------------------------------ implementations
        def _pick(self, k):
            names = sorted(self.model)
            return names[k % len(names)]

        def do_write(self, k, seed, n):
            p = self.path(k)
            schema = schema_from_seed(seed)
            vals = values_from_seed(seed + 1, n, schema["cols"], schema.get("f4"))
            s = make_samples(schema, vals)
            if os.path.exists(p):
                h = sha(p)
                try:
                    s.write(p)
                except Exception:
                    if sha(p) != h:
                        raise Violation("refused write (file exists, overwrite=False) altered the file")
                    self.ops.append("write_refused")
                    return
                raise Violation("writing to an existing file without overwrite=True did not raise")
            with ctx.sut("write"):
                s.write(p)
            self.model[k] = (schema, vals)
            self.ops.append("write")

        def do_overwrite(self, k, seed, n):
            p = self.path(k)
            schema = schema_from_seed(seed)
            vals = values_from_seed(seed + 1, n, schema["cols"], schema.get("f4"))
            with ctx.sut("write(overwrite=True)"):
                make_samples(schema, vals).write(p, overwrite=True)
            existed = k in self.model
            self.model[k] = (schema, vals)
            self.changed = self.changed or existed
            self.ops.append("overwrite")

        def do_append_same(self, k, seed, n):
            k = self._pick(k)
            schema, vals = self.model[k]
            new = values_from_seed(seed, n, schema["cols"], schema.get("f4"))
            with ctx.sut("write(append=True) with an identical schema"):
                make_samples(schema, new).write(self.path(k), append=True)
            self.model[k] = (schema, {c: np.concatenate([vals[c], new[c]]) for c in schema["cols"]})
            self.changed = True
            self.ops.append("append")

        def do_append_bad(self, k, seed, n, kind):
            k = self._pick(k)
            schema, vals = self.model[k]
            g = np.random.default_rng(seed)
            sc = dict(schema, cols=list(schema["cols"]), units=dict(schema["units"]))
            valid = (["P", "e", "omega", "M0", "s", "K"] + ["v%d" % i for i in range(sc["poly"])]
                     + ["dv0_%d" % (i + 1) for i in range(sc["noff"])] + ["ln_prior", "ln_likelihood"])
            must_refuse = False
            if kind == "extra":
                cand = [c for c in valid if c not in sc["cols"]]
                if not cand:
                    return
                c = cand[int(g.integers(0, len(cand)))]
                sc["cols"].insert(int(g.integers(0, len(sc["cols"]) + 1)) if g.random() < 0.5 else len(sc["cols"]), c)
                sc["units"][c] = "" if c in ("e", "ln_prior", "ln_likelihood") else ("d" if c == "P" else ("rad" if c in ("omega", "M0") else (
                    "km/s" if not (c[0] == "v" and c != "v0") else ("km/s/d" if c == "v1" else "km/s/d^%s" % c[1:]))))
                must_refuse = True
            elif kind == "missing":
                if len(sc["cols"]) < 2:
                    return
                sc["cols"].pop(int(g.integers(0, len(sc["cols"]))) if g.random() < 0.5 else -1)
                must_refuse = True
            elif kind == "reorder":
                if len(sc["cols"]) < 2:
                    return
                sc["cols"] = sc["cols"][1:] + sc["cols"][:1]
            elif kind == "unit":
                cand = [c for c in sc["cols"] if sc["units"][c] in ("d", "yr", "h", "rad", "deg") + tuple(og.VEL_UNITS)]
                if not cand:
                    return
                c = cand[int(g.integers(0, len(cand)))]
                alt = {"d": "yr", "yr": "h", "h": "d", "rad": "deg", "deg": "rad", "km/s": "m/s", "m/s": "cm/s", "cm/s": "km/s",
                       "pc/Myr": "km/s", "AU/yr": "m/s"}
                sc["units"][c] = alt[sc["units"][c]]
            elif kind == "t_ref":
                if sc["t_ref"] is None or g.random() < 0.5:
                    sc["t_ref"] = {"mjd": 51234.5, "scale": "tcb", "format": "mjd"}
                else:
                    sc["t_ref"] = None      # rows without a reference epoch appended to a table that has one
                must_refuse = True   # rows referred to another epoch are other orbits
            elif kind == "dtype":
                # same columns and units, other floating-point width: refusing is fine; if it is accepted, the file has to
                # hold exactly the values that were appended (double precision appended to a single-precision file cannot)
                sc["f4"] = not schema.get("f4")
            elif kind == "poly":
                sc["poly"] = sc["poly"] + 1
                must_refuse = True
            elif kind == "noff":
                sc["noff"] = sc["noff"] + 1
                must_refuse = True
            new = values_from_seed(seed + 7, n, sc["cols"], sc.get("f4"))
            p = self.path(k)
            h = sha(p)
            try:
                bad = make_samples(sc, new)
                if must_refuse and g.random() < 0.5:
                    bad.tbl.meta["run"] = "B%d" % seed     # a further top-level metadata entry the file does not have
                bad.write(p, append=True)
            except Exception:
                if sha(p) != h:
                    raise Violation("a refused append (%s) altered the file" % kind)
                self.ops.append("append_refused:" + kind)
                return
            if must_refuse:
                raise Violation("an incompatible append (%s) was accepted" % kind,
                                file_columns=schema["cols"], appended_columns=sc["cols"],
                                file_meta=(schema["t_ref"], schema["poly"], schema["noff"]), appended_meta=(sc["t_ref"], sc["poly"], sc["noff"]))
            # accepted: the file must now be model ++ new table, by column name, in the file's units
            merged = {}
            for c in schema["cols"]:
                add = new[c]
                if sc["units"][c] != schema["units"][c]:
                    add = og.conv(add, sc["units"][c], schema["units"][c])
                merged[c] = np.concatenate([vals[c], add])
            self.model[k] = (schema, merged)
            self.changed = True
            self.ops.append("append_accepted:" + kind)
            if kind == "dtype":
                with ctx.sut("JokerSamples.read"):
                    r = tj.JokerSamples.read(p)
                for c in schema["cols"]:
                    if not np.array_equal(np.asarray(r[c].value, dtype=float), merged[c]):
                        raise Violation("an append of %s-precision rows to a %s-precision file was accepted, but the file does not "
                                        "hold the values that were written" % ("single" if sc["f4"] else "double",
                                                                               "single" if schema.get("f4") else "double"), column=c)
            self.do_read(k, tolerant=sc["units"] != schema["units"])

        def do_read(self, k, tolerant=False):
            k = self._pick(k)
            schema, vals = self.model[k]
            with ctx.sut("JokerSamples.read"):
                r = tj.JokerSamples.read(self.path(k))
            if tolerant:
                for c in schema["cols"]:
                    if not np.allclose(np.asarray(r[c].value), vals[c], rtol=1e-12, atol=0):
                        raise Violation("after an accepted append the file is not the concatenation of what was written", column=c)
            else:
                compare(r, schema, vals, "read after %s" % (self.ops[-3:],))
            if self.changed:
                self.reads_after_change += 1
            self.ops.append("read")

        def do_batch(self, k, seed, how):
            import astropy.units as u

            k = self._pick(k)
            schema, vals = self.model[k]
            g = np.random.default_rng(seed)
            n = len(vals[schema["cols"][0]])
            ncol = int(g.integers(1, len(schema["cols"]) + 1))
            cols = [schema["cols"][i] for i in g.permutation(len(schema["cols"]))[:ncol]]
            units = None
            factor = {c: 1.0 for c in cols}
            if g.random() < 0.5:
                units = {}
                for c in cols:
                    un = schema["units"][c]
                    if un in ("d", "yr", "h"):
                        tgt = str(g.choice(["d", "yr", "h"]))
                    elif un in ("rad", "deg"):
                        tgt = str(g.choice(["rad", "deg"]))
                    elif un in og.VEL_UNITS:
                        tgt = str(g.choice(og.VEL_UNITS))
                    else:
                        continue
                    units[c] = og.unit(tgt)
                    factor[c] = float(og.conv(1.0, un, tgt))
            rng = None
            if how == "slice":
                a = int(g.integers(0, n)); b = int(g.integers(a, n + 1))
                key, rows = slice(a, b), np.arange(n)[a:b]
            elif how == "slice_step":
                a = int(g.integers(0, n)); b = int(g.integers(a, n + 1)); stp = int(g.integers(1, 4))
                key, rows = slice(a, b, stp), np.arange(n)[a:b:stp]
            elif how == "slice_neg":
                a = -int(g.integers(1, n + 1))
                key, rows = slice(a, None), np.arange(n)[a:]
            elif how == "tuple":
                a = int(g.integers(0, n)); b = int(g.integers(a, n + 1))
                key, rows = (a, b), np.arange(n)[a:b]
            elif how == "idx":
                rows = g.integers(0, n, size=int(g.integers(1, n + 3)))
                key = np.array(rows)
            elif how == "idx_block":
                # a block of consecutive rows in an order of the caller's choice: ascending, descending, or shuffled with the
                # smallest row first and the largest last
                a = int(g.integers(0, n)); b = int(g.integers(a, n))
                blk = np.arange(a, b + 1)
                kind = int(g.integers(0, 4))
                if kind == 1:
                    blk = blk[::-1]
                elif kind >= 2 and len(blk) > 2:
                    blk = np.concatenate([blk[:1], g.permutation(blk[1:-1]), blk[-1:]])
                rows = blk
                key = np.array(rows)
            elif how == "idx_gaps":
                # repeats and gaps whose span happens to equal the number of requested rows - 1
                m = int(g.integers(2, max(3, min(n, 8)) + 1))
                a = int(g.integers(0, max(1, n - m + 1)))
                inner = np.sort(g.integers(a, min(n - 1, a + m - 1) + 1, size=max(0, m - 2)))
                rows = np.concatenate([[a], inner, [min(n - 1, a + m - 1)]]).astype(int)
                key = np.array(rows)
            else:
                size = int(g.integers(1, n + 1))
                key, rows = size, None
                rng = np.random.default_rng(seed)
            p = self.path(k)
            h = sha(p)
            rt = 1e-6 if schema.get("f4") else 1e-14      # unit conversion of single-precision columns
            with ctx.sut("read_batch[%s]" % how):
                out = read_batch(p, cols, key, units=units, rng=rng)
            if sha(p) != h:
                raise Violation("read_batch modified the file")
            out = np.asarray(out)
            if rows is None:
                # random subset: distinct rows of the file, as many as requested
                if out.shape != (key, len(cols)):
                    raise Violation("read_batch(int): wrong shape", shape=out.shape, requested=key)
                # identify rows through all requested columns
                full = np.stack([vals[c] * factor[c] for c in cols], axis=1)
                used = set()
                for r in out:
                    hit = [i for i in range(n) if i not in used and np.allclose(full[i], r, rtol=rt, atol=0, equal_nan=True)
                           and np.array_equal(np.signbit(full[i]), np.signbit(r))]
                    if not hit:
                        raise Violation("read_batch(int) returned a row that is not a (not yet used) row of the file", row=r)
                    used.add(hit[0])
            else:
                if out.shape != (len(rows), len(cols)):
                    raise Violation("read_batch[%s]: wrong shape" % how, shape=out.shape, rows=len(rows), cols=len(cols))
                for j, c in enumerate(cols):
                    want = vals[c][rows] * factor[c]
                    rt_c = 1e-6 if is_f4(schema.get("f4"), c) else 1e-14
                    ok = np.array_equal(out[:, j], want) if factor[c] == 1.0 else np.allclose(out[:, j], want, rtol=rt_c, atol=0)
                    if not ok:
                        raise Violation("read_batch[%s] did not return the requested rows of column %s (in the requested "
                                        "order and units)" % (how, c), rows=rows[:10], got=out[:10, j], want=want[:10])
            self.ops.append("batch:" + how)

        def do_group(self, seed, n, append):
            schema = schema_from_seed(seed)
            vals = values_from_seed(seed + 1, n, schema["cols"], schema.get("f4"))
            p = os.path.join(self.dir, "group.hdf5")
            with ctx.sut("write/read through an h5py group"):
                with h5py.File(p, "w") as f:
                    grp = f.create_group("star-1")
                    make_samples(schema, vals).write(grp)
                    f.create_group("other")["x"] = np.arange(3)
                if append:
                    more = values_from_seed(seed + 2, n, schema["cols"], schema.get("f4"))
                    with h5py.File(p, "a") as f:
                        make_samples(schema, more).write(f["star-1"], append=True)
                    vals = {c: np.concatenate([vals[c], more[c]]) for c in schema["cols"]}
                schema2 = schema_from_seed(seed + 11)
                vals2 = values_from_seed(seed + 12, n + 1, schema2["cols"], schema2.get("f4"))
                with h5py.File(p, "a") as f:
                    make_samples(schema2, vals2).write(f.create_group("star-2"))
                with h5py.File(p, "r") as f:
                    r = tj.JokerSamples.read(f["star-1"])
                    r2 = tj.JokerSamples.read(f["star-2"])
                    other = np.asarray(f["other"]["x"])
                # the same tables addressed by file name + path inside the file
                rp = tj.JokerSamples.read(p, path="star-1/samples")
                rp2 = tj.JokerSamples.read(p, path="star-2/samples")
            compare(r, schema, vals, "group round trip")
            compare(r2, schema2, vals2, "group round trip (second group of the file)")
            compare(rp, schema, vals, "read(filename, path=...) of a table written through a group")
            compare(rp2, schema2, vals2, "read(filename, path=...) of the second table of the file")
            if not np.array_equal(other, np.arange(3)):
                raise Violation("writing into a group damaged a sibling dataset")
            self.ops.append("group")

        def do_fits(self, seed, n):
            schema = schema_from_seed(seed)
            vals = values_from_seed(seed + 1, n, schema["cols"], schema.get("f4"))
            p = os.path.join(self.dir, "t.fits")
            with ctx.sut("FITS write/read"):
                make_samples(schema, vals).write(p, overwrite=True)
                r = tj.JokerSamples.read(p)
            compare(r, schema, vals, "FITS round trip", fits=True)
            self.ops.append("fits")

        def finish(self):
            nt = self.reads_after_change > 0
            ctx.note_case(self.log, nt, sorted(set(o.split(":")[0] if not o.startswith(("append_", "batch")) else o for o in self.ops)))

    return Files


# ----------------------------------------------------------------------------- random subsets of large files
@st.composite
def random_batch_cases(draw):
    n = draw(st.sampled_from([150, 300, 1000, 5000, 20000]))
    lo = max(1, n // 100)
    size = draw(st.one_of(st.integers(1, lo), st.integers(max(1, lo - 3), lo + 3), st.integers(1, min(n, 400)),
                          st.integers(max(1, (9 * lo) // 10), lo)))
    return {"n": n, "size": min(size, n), "seed": draw(st.integers(0, 2**32 - 1)), "cols": draw(st.sampled_from([["P"], ["e", "P"]]))}


def random_batch_body_factory(ctx):
    import astropy.units as u

    import thejoker as tj
    from thejoker.utils import read_batch

    files = {}

    def get(n):
        if n not in files:
            s = tj.JokerSamples()
            s["P"] = (np.arange(n, dtype=float) + 1.0) * u.day
            s["e"] = (np.arange(n, dtype=float) % 97) / 100.0
            files[n] = os.path.join(ctx.workdir, "big%d.hdf5" % n)
            s.write(files[n], overwrite=True)
        return files[n]

    def body(case):
        n, size = case["n"], case["size"]
        with ctx.sut("read_batch(int)"):
            out = np.asarray(read_batch(get(n), case["cols"], size, rng=np.random.default_rng(case["seed"])))
        if out.shape != (size, len(case["cols"])):
            raise Violation("read_batch(int): wrong shape", shape=out.shape, requested=size)
        P = out[:, case["cols"].index("P")]
        rows = np.rint(P).astype(int) - 1
        if np.any(rows < 0) or np.any(rows >= n) or not np.array_equal(P, rows + 1.0):
            raise Violation("read_batch(int) returned rows that are not rows of the file")
        if len(set(rows.tolist())) != size:
            dup = sorted(r for r in set(rows.tolist()) if (rows == r).sum() > 1)
            raise Violation("read_batch(int): the random subset contains a row more than once", repeated_rows=dup[:10],
                            file_rows=n, requested=size)
        if "e" in case["cols"] and not np.array_equal(out[:, case["cols"].index("e")], (rows % 97) / 100.0):
            raise Violation("read_batch(int): columns of one returned row come from different rows of the file")
        ctx.note_case(case, size > 1, ["random subset: size %s rows/100" % ("<" if size < n // 100 else ">="), "file rows=%d" % n])

    return body


def run(ctx):
    ctx.search("random_batch", random_batch_cases(), random_batch_body_factory(ctx), quick=300, thorough=6000)
    ctx.machine("files", lambda: machine_factory(ctx), quick=400, thorough=6000, steps_quick=25, steps_thorough=50)
