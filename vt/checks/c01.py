"""C01 - marginal log-likelihood equals the analytic Gaussian marginal."""
import os

import numpy as np
from hypothesis import strategies as st

from vt import gens
from vt import oracle_gauss as og
from vt.runner import Violation

RULE = ("Hypothesis draws a problem (1-3 surveys [thorough 4] with 1-8 [40] epochs each in random layouts/orders/units, "
        "a prior: poly_trend 1-3 [4], default FixedCompanionMass or custom Normal K prior, non-zero means, "
        "period/velocity units, optional cap; 4-8 [16] nonlinear rows incl. e=0, e->0.99, s=0 and s>0, columns in "
        "random equivalent units) and an execution path (in memory / object through cache file / file name). "
        "Oracle: independent closed form ln N(y|M mu, C+s^2 I+M Lambda M^T) (Cholesky in float64 and longdouble) with "
        "the conditioning-aware tolerance of DESIGN 4.2; rows with 0.99<e<1 only need a finite value. "
        "A case is non-trivial when at least one of: s>0, n_offsets>=1, poly_trend>=2, non-zero prior mean, "
        "custom K prior, binding cap, period or velocity unit other than (day, data unit); distinct by fingerprint "
        "of the full specification."
        ' Libraries: one in three is an object with a previous life (packed in other units, or re-assigned / overwritten columns after a first packing); the same file name is re-written from case to case. kappa > 1e14 (also under the recorded defect flags) is numerically singular: counted, not judged.')
SHARDS = {"quick": 4, "thorough": 16}
BUDGET = {"quick": 75, "thorough": 780}


def effective_rows(smp, data_unit):
    import astropy.units as u

    P = smp["P"].to_value(u.day)
    om = smp["omega"].to_value(u.rad)
    M0 = smp["M0"].to_value(u.rad)
    s = smp["s"].to_value(og.unit(data_unit))
    e = np.asarray(smp["e"])
    return [{"P": float(P[i]), "e": float(e[i]), "omega": float(om[i]), "M0": float(M0[i]), "s": float(s[i])}
            for i in range(len(smp))]


def spec_classes(spec, prob):
    pr = spec["prior"]
    c = ["n_off=%d" % prob.n_offsets, "poly=%d" % pr["poly_trend"], "K:" + pr["K"]["kind"], "via:" + pr["via"],
         "Punit:" + pr["P"]["unit"], "cross:" + spec["cross"], "data:" + spec["data_kind"], "path:" + spec.get("path", "mem"),
         "time:" + spec.get("time_input", "float")]
    if prob.n <= prob.n_linear:
        c.append("n_epochs<=n_linear")
    if prob.n == 1:
        c.append("single_epoch")
    means = any(x["mu"] != 0 for x in pr["v"] + pr["offsets"]) or (pr["K"].get("mu", 0) != 0)
    if means:
        c.append("means!=0")
    if any(s["unit"] != spec["surveys"][0]["unit"] for s in spec["surveys"]) or any("err_unit" in s for s in spec["surveys"]):
        c.append("mixed_data_units")
    if spec.get("t_ref") is not None:
        c.append("custom_t_ref")
    if spec.get("row_dtype") == "f4":
        c.append("float32 library")
    if spec.get("t_ref_false"):
        c.append("t_ref=False")
    if spec.get("prehistory"):
        c.append("prehistory:" + spec["prehistory"])
    return c, means


def compare_rows(ctx, prob, rows_eff, ll, spec, posterior=False):
    """Compare code values with the closed form row by row; returns per-spec flags."""
    info = {"s>0": False, "cap": False, "hi_e": False}
    for i, row in enumerate(rows_eff):
        if not np.isfinite(ll[i]):
            # float64 cannot factor a system whose prior variance exceeds the data variance by more than ~1e15
            # (e.g. a quadratic trend referred to BMJD 0 with t_ref=False): not judged, counted
            # (the conditioning of what the kernel actually factors: with recorded defect F1 it leaves the jitter out of
            # the data variance, which can raise the ratio by orders of magnitude)
            kap = max(og.evaluate(prob, row, fl)["kappa"] for fl in og.subsets(prob.applicable_flags(row)))
            if kap > 1e14:
                ctx.classes["numerically singular configuration (kappa>1e14): non-finite value not judged"] += 1
                continue
            raise Violation("marginal ln-likelihood is not finite for a finite valid input", row=row, value=ll[i], kappa=kap)
        if row["e"] > 0.99:
            info["hi_e"] = True
            continue
        ev = og.evaluate(prob, row)
        if ev.get("singular") or ev["kappa"] > 1e14:
            # prior variance over data variance beyond the resolution of float64 (eps * kappa > 0.02): whatever finite value
            # comes out is dominated by round-off
            ctx.classes["numerically singular configuration: no reference value, not judged"] += 1
            continue
        if row["s"] > 0:
            info["s>0"] = True
        K = spec["prior"]["K"]
        if K["kind"] == "fcm":
            uncapped = prob.linear_prior(row, ("F3",))[1][0]
            if uncapped > ev["Lam"][0] * (1 + 1e-12):
                info["cap"] = True
        d = abs(ll[i] - ev["ll"])
        if ev["kappa"] > 1e8:
            ctx.classes["ill-conditioned(kappa>1e8)"] += 1
        best = ((), og.ratio_of(ev, ll[i]), ev)
        if best[1] > 1e-2:
            # not clearly the true value: which explanation fits best - the true closed form or exactly one of
            # the recorded defects (closed form with that defect's signature)?
            for flags in og.subsets(prob.applicable_flags(row, posterior))[1:]:
                ev2 = og.evaluate(prob, row, flags)
                r2 = og.ratio_of(ev2, ll[i])
                if r2 < best[1]:
                    best = (flags, r2, ev2)
        if best[1] > 1.0:
            raise Violation("marginal ln-likelihood differs from the closed form",
                            row=row, row_index=i, code=float(ll[i]), closed_form=ev["ll"], diff=d, tol=og.tol_of(ev),
                            kappa=ev["kappa"], mu=ev["mu"], Lambda=ev["Lam"],
                            tried_defect_signatures=[list(f) for f in og.subsets(prob.applicable_flags(row))[1:]])
        if "tol" in best[2]:
            ctx.stat_max("max |delta|/tol of accepted values that needed the full round-off model", best[1])
            ctx.classes["accepted beyond the 1e-10 floor"] += 1
        else:
            ctx.classes["accepted within the 1e-10 relative floor"] += 1
        if best[2]["kappa"] < 1e6:
            ctx.stat_max("max accepted |delta| where kappa<1e6", abs(ll[i] - best[2]["ll"]))
        for f in best[0]:
            ctx.known(f)
    return info


def prehistory(ctx, spec, joker, smp):
    """the same TheJoker / prior object is first used on a related data set (same epochs and velocities with other
    uncertainties, or the same data expressed in another velocity unit): later results must not depend on that"""
    pre = spec.get("prehistory")
    if not pre:
        return
    spec2 = dict(spec)
    if pre == "errors":
        spec2["surveys"] = [dict(sv, err=[e * 3.0 for e in sv["err"]]) for sv in spec["surveys"]]
    else:
        alt = "m/s" if spec["surveys"][0]["unit"] != "m/s" else "km/s"
        spec2["surveys"] = [dict(sv, unit=alt, rv=[float(og.conv(x, sv["unit"], alt)) for x in sv["rv"]],
                                 err=[float(og.conv(x, sv.get("err_unit", sv["unit"]), alt)) for x in sv["err"]])
                            for sv in spec["surveys"]]
        for sv in spec2["surveys"]:
            sv.pop("err_unit", None)
    with ctx.sut("marginal_ln_likelihood on a related data set (history)"):
        joker.marginal_ln_likelihood(gens.build_data(spec2), smp, in_memory=True)


def body_factory(ctx):
    import thejoker as tj

    def body(spec):
        prob = og.Problem(spec)
        with ctx.sut("building data/prior/samples"):
            data = gens.build_data(spec)
            prior = gens.build_prior(spec["prior"])
            smp = gens.build_samples(spec)
        rows_eff = effective_rows(smp, prob.data_unit)
        gens.check_public_epoch(data, prob, spec)
        path = spec.get("path", "mem")
        joker = tj.TheJoker(prior)
        prehistory(ctx, spec, joker, smp)
        with ctx.sut("marginal_ln_likelihood[%s]" % path):
            if path == "mem":
                ll = joker.marginal_ln_likelihood(data, smp, in_memory=True)
            elif path == "cache":
                ll = joker.marginal_ln_likelihood(data, smp, n_batches=spec.get("n_batches"))
            else:
                fn = os.path.join(ctx.workdir, "c01lib.hdf5")
                smp.write(fn, overwrite=True)
                ll = joker.marginal_ln_likelihood(data, fn, n_batches=spec.get("n_batches"))
        ll = np.asarray(ll, dtype=float)
        if ll.shape != (len(rows_eff),):
            raise Violation("wrong number of likelihood values", shape=ll.shape, rows=len(rows_eff))
        info = compare_rows(ctx, prob, rows_eff, ll, spec)
        cls, means = spec_classes(spec, prob)
        pr = spec["prior"]
        units_nt = pr["P"]["unit"] != "d" or "mixed_data_units" in cls or any(
            x["unit"].split("/")[0:2] != prob.data_unit.split("/")[0:2] for x in pr["v"])
        nontrivial = (info["s>0"] or prob.n_offsets >= 1 or pr["poly_trend"] >= 2 or means
                      or pr["K"]["kind"] == "normal" or info["cap"] or units_nt)
        for k, v in info.items():
            if v:
                cls.append(k)
        ctx.note_case(spec, nontrivial, cls)

    return body


@st.composite
def cases(draw, thorough=False):
    spec = draw(gens.problems(max_surveys=4 if thorough else 3, max_epochs=80 if thorough else 8,
                              max_poly=4 if thorough else 3, n_rows=(8, 16) if thorough else (4, 8), allow_f4=True, t_ref="allow_false"))
    spec["path"] = draw(st.sampled_from(["mem", "mem", "mem", "cache", "file"]))
    spec["prehistory"] = draw(st.sampled_from([None, None, None, "errors", "unit"]))
    if spec["path"] != "mem":
        spec["n_batches"] = draw(st.one_of(st.none(), st.integers(1, len(spec["rows"]) + 2)))
    # a few rows in the finiteness-only class 0.99 < e < 1
    if draw(st.integers(0, 4)) == 0:
        r = dict(spec["rows"][0])
        r["e"] = gens.rounded(1 - draw(gens.logfloat(1e-7, 9e-3)), 12)
        spec["rows"].append(r)
    return spec


def run(ctx):
    body = body_factory(ctx)
    ctx.search("closed_form", cases(thorough=not ctx.quick), body, quick=2000, thorough=40000)
