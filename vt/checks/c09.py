"""C09 - prior draws and reported ln_prior follow the declared densities."""
import math

import numpy as np
from hypothesis import strategies as st

from vt import gens
from vt import oracle_gauss as og
from vt.runner import Violation

RULE = ("(densities) the exported distribution classes evaluated through pm.logp at generated parameters and points "
        "inside, on the edge of and outside the support: UniformLog(a,b) == -ln x - ln ln(b/a) inside and -inf outside, "
        "numeric integral of exp(logp) over the support == 1 +- 1e-6; FixedCompanionMass == Normal log-pdf with sigma = "
        "clip(sigma_K0 (P/P0)^(-1/3)/sqrt(1-e^2), 0, max_K); Kipping13{Global,Short,Long} == Beta with the published "
        "(alpha, beta). (draws) prior configurations of the C01 grammar: 4000 draws [thorough 20000] lie in the support "
        "and pass KS tests against the closed-form CDFs (log-uniform / uniform P, Beta e, uniform angles on the circle, "
        "K/sigma_K(P,e) ~ N(0,1), (v_i-mu_i)/sigma_i ~ N(0,1), offsets likewise; failure threshold p<1e-9). (ln_prior) "
        "prior.sample(return_logprobs=True, generate_linear on/off): ln_prior minus the sum of the declared log-densities "
        "of the sampled parameters must be one constant over the rows. Non-trivial: every configuration with a "
        "non-default unit, a non-zero mean, a cap, offsets or poly_trend>=2; every density case with points on both "
        "sides of a support edge."
        " Also: logp at x <= 0 and at e up to 0.99999; search 'conditional': priors whose e / s / K depend on P and symbolic-RV priors (pm.Truncated period, pm.Mixture jitter), probability-integral-transform KS test and ln_prior up to a constant.")
SHARDS = {"quick": 4, "thorough": 16}
BUDGET = {"quick": 85, "thorough": 800}

KIPPING = {"Kipping13Global": (0.867, 3.03), "Kipping13Short": (0.697, 3.27), "Kipping13Long": (1.12, 3.09)}


@st.composite
def density_cases(draw):
    kind = draw(st.sampled_from(["UniformLog", "UniformLog", "FixedCompanionMass", "FixedCompanionMass"] + list(KIPPING)))
    c = {"kind": kind}
    if kind == "UniformLog":
        a = gens.rounded(draw(gens.logfloat(1e-3, 1e3)))
        c.update(a=a, b=gens.rounded(a * draw(gens.logfloat(1.01, 1e8))),
                 u=[draw(gens.fl(-0.5, 1.5)) for _ in range(8)])
    elif kind == "FixedCompanionMass":
        c.update(sigma_K0=gens.rounded(draw(gens.logfloat(1e-2, 1e2))), P0=gens.rounded(draw(gens.logfloat(1.0, 1e3))),
                 max_K=gens.rounded(draw(gens.logfloat(1.0, 1e3))), mu=gens.rounded(draw(gens.fl(-5, 5))),
                 K_unit=draw(st.sampled_from(og.VEL_UNITS)), P0_unit=draw(st.sampled_from(["d", "yr", "h"])),
                 P_unit=draw(st.sampled_from(["d", "yr"])),
                 pts=[[gens.rounded(draw(gens.logfloat(0.1, 1e4))),
                       draw(st.one_of(gens.fl(0, 0.98).map(gens.rounded), st.sampled_from([0.99, 0.995, 0.999, 0.9999, 0.99999]))),
                       gens.rounded(draw(gens.fl(-200, 200)))]
                      for _ in range(6)])
    else:
        c.update(x=[gens.rounded(draw(gens.fl(-0.2, 1.2))) for _ in range(8)])
    return c


def density_body_factory(ctx):
    import astropy.units as u
    import pymc as pm
    import scipy.stats as ss

    import thejoker.distributions as dist
    import thejoker.units as xu

    def body(c):
        kind = c["kind"]
        edge = False
        if kind == "UniformLog":
            a, b = c["a"], c["b"]
            x = np.array([a * (b / a) ** t for t in c["u"]] + [a, b, a * (1 - 1e-9), b * (1 + 1e-9), 0.0, -a, -1e-3 * b])
            with ctx.sut("pm.logp(UniformLog)"):
                lp = np.asarray(pm.logp(dist.UniformLog.dist(a, b), x).eval(), dtype=float)
            inside = (x >= a) & (x <= b)
            want = -np.log(x) - math.log(math.log(b / a))
            on_edge = (x == a) | (x == b)
            for xi, li, wi, ins, oe in zip(x, lp, want, inside, on_edge):
                if ins:
                    # 1e-6: pytensor keeps float32-representable constants (a, b) in single precision, which moves
                    # the normalisation constant by ~1e-8; the property makes no precision claim beyond "same density"
                    # (the end points belong to the support: draws do land on them - the bounds are kept as float32 constants
                    # whenever they are representable - and such rows must get a finite ln_prior)
                    if not abs(li - wi) <= 1e-6 * (1 + abs(wi)):
                        raise Violation("UniformLog.logp inside the support is not -ln x - ln ln(b/a)", a=a, b=b, x=xi, got=li, want=wi)
                elif not (li == -np.inf):
                    raise Violation("UniformLog.logp outside the support is not -inf", a=a, b=b, x=xi, got=li)
            # normalisation, independent of the formula above: integrate exp(logp) in ln x
            tt = (np.arange(4000) + 0.5) / 4000.0   # midpoint rule in ln x (nodes strictly inside the support)
            xs = a * (b / a) ** tt
            lpx = np.asarray(pm.logp(dist.UniformLog.dist(a, b), xs).eval(), dtype=float)
            f = np.exp(lpx) * xs * math.log(b / a)
            integral = float(np.sum(f) / 4000.0)
            if not (abs(integral - 1) <= 1e-6):
                raise Violation("UniformLog log-density does not integrate to 1 over its support", a=a, b=b, integral=integral)
            edge = bool(inside.any() and (~inside).any())
        elif kind == "FixedCompanionMass":
            ku, p0u, pu = og.unit(c["K_unit"]), og.unit(c["P0_unit"]), og.unit(c["P_unit"])
            pts = np.array(c["pts"])
            Pd, e, K = pts[:, 0], pts[:, 1], pts[:, 2]
            Pv = (Pd * u.day).to_value(pu)
            with pm.Model():
                Pvar = xu.with_unit(pm.Uniform("P", 1e-3, 1e6, shape=len(Pd)), pu)
                evar = xu.with_unit(pm.Uniform("e", 0, 1, shape=len(Pd)), u.one)
                with ctx.sut("FixedCompanionMass(...)"):
                    Kvar = dist.FixedCompanionMass("K", P=Pvar, e=evar, sigma_K0=c["sigma_K0"] * ku, P0=c["P0"] * p0u,
                                                   max_K=c["max_K"] * ku, mu=c["mu"], shape=len(Pd))
                    lp = np.asarray(pm.logp(Kvar, K).eval({Pvar: Pv, evar: e}), dtype=float)
            P0d = (c["P0"] * p0u).to_value(u.day)
            sig = np.clip(c["sigma_K0"] * (Pd / P0d) ** (-1.0 / 3) / np.sqrt(1 - e ** 2), 0, c["max_K"])
            want = ss.norm.logpdf(K, c["mu"], sig)
            if not np.allclose(lp, want, rtol=1e-6, atol=1e-6):
                j = int(np.argmax(np.abs(lp - want)))
                raise Violation("FixedCompanionMass log-density is not Normal(mu, clip(sigma_K0 (P/P0)^(-1/3)/sqrt(1-e^2), 0, max_K))",
                                P_days=Pd[j], e=e[j], K=K[j], got=lp[j], want=want[j], sigma=sig[j])
            uncapped = c["sigma_K0"] * (Pd / P0d) ** (-1.0 / 3) / np.sqrt(1 - e ** 2)
            edge = bool((uncapped > c["max_K"]).any() and (uncapped <= c["max_K"]).any())
        else:
            al, be = KIPPING[kind]
            x = np.array(c["x"] + [0.5])
            with ctx.sut("pm.logp(%s)" % kind):
                lp = np.asarray(pm.logp(getattr(dist, kind).dist(), x).eval(), dtype=float)
            inside = (x > 0) & (x < 1)
            want = ss.beta.logpdf(x, al, be)
            if not np.allclose(lp[inside], want[inside], rtol=1e-6, atol=1e-6):
                raise Violation("%s log-density is not Beta(%g, %g)" % (kind, al, be), x=x[inside], got=lp[inside], want=want[inside])
            out = (x < 0) | (x > 1)
            if not np.all(lp[out] == -np.inf):
                raise Violation("%s log-density outside [0,1] is not -inf" % kind, x=x[out], got=lp[out])
            with ctx.sut("pm.draw(%s)" % kind):
                d = pm.draw(getattr(dist, kind).dist(), draws=4000, random_seed=np.random.default_rng(7))
            p = ss.kstest(d, ss.beta(al, be).cdf).pvalue
            if p < 1e-9 or d.min() < 0 or d.max() > 1:
                raise Violation("%s draws do not follow Beta(%g, %g)" % (kind, al, be), p=p)
            edge = bool(inside.any() and out.any())
        ctx.note_case(c, edge, ["density:" + kind, "density:both sides of an edge" if edge else "density:one side"])

    return body


# ----------------------------------------------------------------------------- draws and ln_prior of whole priors
@st.composite
def prior_cases(draw):
    noff = draw(st.integers(0, 2))
    pr = draw(gens.prior_spec(noff, gens.rounded(draw(gens.logfloat(1e-2, 1e2))), gens.rounded(draw(gens.logfloat(1.0, 1e3))),
                              max_poly=3, units=True, sampled_s=True))
    if pr["via"] == "manual" and draw(st.booleans()):
        pr["pars_order"] = draw(st.integers(0, 1000))      # variables handed to the constructor in another order
    return {"prior": pr, "seed": draw(st.integers(0, 2**32 - 1)), "generate_linear": draw(st.booleans())}


def prior_body_factory(ctx, ndraw):
    import astropy.units as u
    import scipy.stats as ss

    def circ(x):
        return np.mod(x, 2 * np.pi) / (2 * np.pi)

    def body(c):
        pr = c["prior"]
        with ctx.sut("building the prior"):
            prior = gens.build_prior(pr)
        with ctx.sut("prior.sample(size=%d, generate_linear=True)" % ndraw):
            s = prior.sample(size=ndraw, generate_linear=True, rng=np.random.default_rng(c["seed"]))
        pvals = {}

        def ks(name, sample, cdf):
            p = ss.kstest(sample, cdf).pvalue
            pvals[name] = p
            if p < 1e-9:
                raise Violation("draws of %s do not follow the declared distribution (KS p=%.3g)" % (name, p),
                                prior=pr.get(name, pr.get("P")), n=len(sample), sample_head=sample[:5])

        # P
        P = s["P"].to_value(og.unit(pr["P"]["unit"]))
        a, b = pr["P"]["min"], pr["P"]["max"]
        if s["P"].unit != og.unit(pr["P"]["unit"]):
            raise Violation("sampled P does not carry the prior's unit", unit=str(s["P"].unit))
        if P.min() < a * (1 - 1e-12) or P.max() > b * (1 + 1e-12):
            raise Violation("period draws outside (P_min, P_max)", min=P.min(), max=P.max(), support=(a, b))
        if pr["P"]["kind"] == "uniformlog":
            ks("P", np.log(P / a) / math.log(b / a), ss.uniform.cdf)
        else:
            ks("P", (P - a) / (b - a), ss.uniform.cdf)
        e = np.asarray(s["e"].value, dtype=float)
        if e.min() < 0 or e.max() >= 1:
            raise Violation("eccentricity draws outside [0, 1)", min=e.min(), max=e.max())
        ks("e", e, ss.beta(0.867, 3.03).cdf)
        ks("omega", circ(s["omega"].to_value(u.rad)), ss.uniform.cdf)
        ks("M0", circ(s["M0"].to_value(u.rad)), ss.uniform.cdf)
        # K | P, e
        K = pr["K"]
        if K["kind"] == "fcm":
            ku = og.unit(K["sigma_K0_unit"])
            Pd = s["P"].to_value(u.day)
            P0d = float(og.conv(K["P0"], K["P0_unit"], "d"))
            maxK = float(og.conv(K["max_K"], K["max_K_unit"], K["sigma_K0_unit"])) if K.get("max_K") is not None else float(og.conv(500.0, "km/s", K["sigma_K0_unit"]))
            sig = np.clip(K["sigma_K0"] * (Pd / P0d) ** (-1.0 / 3) / np.sqrt(1 - e ** 2), 0, maxK)
            z = (s["K"].to_value(ku) - K.get("mu", 0.0)) / sig
        else:
            z = (s["K"].to_value(og.unit(K["unit"])) - K["mu"]) / K["sigma"]
        ks("K", z, ss.norm.cdf)
        for i, v in enumerate(pr["v"]):
            ks("v%d" % i, (s["v%d" % i].to_value(og.unit(v["unit"])) - v["mu"]) / v["sigma"], ss.norm.cdf)
        for i, o in enumerate(pr["offsets"]):
            ks("dv0_%d" % (i + 1), (s["dv0_%d" % (i + 1)].to_value(og.unit(o["unit"])) - o["mu"]) / o["sigma"], ss.norm.cdf)
        sj = pr["s"]
        sv = s["s"].to_value(og.unit(sj["unit"]))
        if sj["kind"] == "lognormal":
            ks("s", (np.log(sv) - sj["mu"]) / sj["sigma"], ss.norm.cdf)
        elif not np.all(sv == sj.get("value", 0.0)):
            raise Violation("constant jitter is not constant", values=sv[:5], declared=sj.get("value", 0.0))
        ctx.stat_max("smallest KS p-value (as -log10)", -math.log10(max(min(pvals.values()), 1e-300)))
        # ---- ln_prior up to one constant
        gl = c["generate_linear"]
        with ctx.sut("prior.sample(return_logprobs=True, generate_linear=%s)" % gl):
            t = prior.sample(size=400, generate_linear=gl, return_logprobs=True, rng=np.random.default_rng(c["seed"] + 1))
        if "ln_prior" not in t.par_names:
            raise Violation("return_logprobs=True but no ln_prior column")
        lp = np.asarray(t["ln_prior"], dtype=float)
        Pt = t["P"].to_value(og.unit(pr["P"]["unit"]))
        et = np.asarray(t["e"].value, dtype=float)
        dens = -np.log(Pt) if pr["P"]["kind"] == "uniformlog" else np.zeros(len(t))
        dens = dens + ss.beta.logpdf(et, 0.867, 3.03)
        if sj["kind"] == "lognormal":
            st_ = t["s"].to_value(og.unit(sj["unit"]))
            dens = dens + ss.lognorm.logpdf(st_, sj["sigma"], scale=math.exp(sj["mu"]))
        if gl:
            if K["kind"] == "fcm":
                Pd = t["P"].to_value(u.day)
                sig = np.clip(K["sigma_K0"] * (Pd / P0d) ** (-1.0 / 3) / np.sqrt(1 - et ** 2), 0, maxK)
                dens = dens + ss.norm.logpdf(t["K"].to_value(og.unit(K["sigma_K0_unit"])), K.get("mu", 0.0), sig)
            else:
                dens = dens + ss.norm.logpdf(t["K"].to_value(og.unit(K["unit"])), K["mu"], K["sigma"])
            for i, v in enumerate(pr["v"]):
                dens = dens + ss.norm.logpdf(t["v%d" % i].to_value(og.unit(v["unit"])), v["mu"], v["sigma"])
            for i, o in enumerate(pr["offsets"]):
                dens = dens + ss.norm.logpdf(t["dv0_%d" % (i + 1)].to_value(og.unit(o["unit"])), o["mu"], o["sigma"])
        diff = lp - dens
        spread = float(np.max(diff) - np.min(diff))
        scale = float(np.max(np.abs(dens)) + np.max(np.abs(lp)) + 1)
        if not np.all(np.isfinite(lp)) or spread > 1e-6 * scale:
            j = int(np.argmax(np.abs(diff - np.median(diff))))
            raise Violation("ln_prior is not (up to one additive constant) the log of the joint density the rows were "
                            "drawn from", spread=spread, generate_linear=gl, row_P=Pt[j], row_e=et[j],
                            ln_prior=lp[j], declared_log_density=dens[j], typical_difference=float(np.median(diff)))
        nondef = pr["P"]["unit"] != "d" or pr["poly_trend"] >= 2 or len(pr["offsets"]) > 0 or K.get("max_K") is not None \
            or any(v["mu"] != 0 for v in pr["v"]) or K["kind"] == "normal"
        ctx.note_case(c, nondef, ["prior:K=" + K["kind"], "prior:P=" + pr["P"]["kind"], "prior:Punit=" + pr["P"]["unit"],
                                  "prior:s=" + sj["kind"], "prior:via=" + pr["via"], "prior:generate_linear=%s" % gl,
                                  "prior:poly=%d" % pr["poly_trend"], "prior:noff=%d" % len(pr["offsets"])])

    return body


# ----------------------------------------------------------------------------- priors with dependent nonlinear parameters
@st.composite
def conditional_cases(draw):
    a = gens.rounded(draw(gens.logfloat(0.5, 50.0)))
    return {"a": a, "b": gens.rounded(a * draw(gens.logfloat(3.0, 300.0))), "slope": gens.rounded(draw(gens.fl(0.5, 6.0))),
            "which": draw(st.sampled_from(["e|P", "s|P", "e|P", "K|P", "P~Truncated", "s~Mixture"])), "seed": draw(st.integers(0, 2**32 - 1)),
            "generate_linear": draw(st.booleans())}


def conditional_body_factory(ctx):
    import astropy.units as u
    import pymc as pm
    import pytensor.tensor as pt
    import scipy.stats as ss

    import thejoker as tj
    import thejoker.units as xu

    def body(c):
        a, b, k = c["a"], c["b"], c["slope"]
        which = c["which"]
        with ctx.sut("building a prior whose parameters depend on the period"):
            with pm.Model() as model:
                if which == "P~Truncated":
                    # a prior that pymc represents by a symbolic (not a plain) random variable
                    P = xu.with_unit(pm.Truncated("P", pm.LogNormal.dist(math.log(a) + 1.0, k / 3.0), lower=a, upper=b), u.day)
                else:
                    P = xu.with_unit(pm.Uniform("P", a, b), u.day)
                frac = (P - a) / (b - a)
                pars = {"P": P}
                if which == "s~Mixture":
                    pars["s"] = xu.with_unit(pm.Mixture("s", w=[0.3, 0.7], comp_dists=[pm.LogNormal.dist(-3.0, 0.3),
                                                                                         pm.LogNormal.dist(0.5, 0.4)]), u.km / u.s)
                if which == "e|P":
                    # tidal circularisation: short periods prefer small eccentricities
                    pars["e"] = xu.with_unit(pm.Beta("e", 0.867, 3.03 + k * (1 - frac)), u.one)
                elif which == "s|P":
                    pars["s"] = xu.with_unit(pm.Lognormal("s", -2.0 + k * frac, 0.5), u.km / u.s)
                elif which == "K|P":
                    pars["K"] = xu.with_unit(pm.Normal("K", 0.0, 1.0 + k * frac), u.km / u.s)
                kw = dict(sigma_v=10 * u.km / u.s, pars=pars, model=model)
                if which != "K|P":
                    kw["sigma_K0"] = 20 * u.km / u.s
                prior = tj.JokerPrior.default(**kw)
        gl = c["generate_linear"] or which == "K|P"
        with ctx.sut("prior.sample(return_logprobs=True)"):
            t = prior.sample(size=600, generate_linear=gl, return_logprobs=True, rng=np.random.default_rng(c["seed"]))
        lp = np.asarray(t["ln_prior"], dtype=float)
        Pd = t["P"].to_value(u.day)
        e = np.asarray(t["e"].value, dtype=float)
        fr = (Pd - a) / (b - a)
        if Pd.min() < a or Pd.max() > b:
            raise Violation("period draws outside the declared support", min=Pd.min(), max=Pd.max())
        dens = np.zeros(len(t))
        pit = None
        if which == "P~Truncated":
            mu_, sg_ = math.log(a) + 1.0, k / 3.0
            lo_, hi_ = ss.norm.cdf((math.log(a) - mu_) / sg_), ss.norm.cdf((math.log(b) - mu_) / sg_)
            dens += ss.lognorm.logpdf(Pd, sg_, scale=math.exp(mu_)) - math.log(hi_ - lo_)
            pit = (ss.norm.cdf((np.log(Pd) - mu_) / sg_) - lo_) / (hi_ - lo_)
        if which == "s~Mixture":
            sv = t["s"].to_value(u.km / u.s)
            dens += np.log(0.3 * ss.lognorm.pdf(sv, 0.3, scale=math.exp(-3.0)) + 0.7 * ss.lognorm.pdf(sv, 0.4, scale=math.exp(0.5)))
            pit = 0.3 * ss.lognorm.cdf(sv, 0.3, scale=math.exp(-3.0)) + 0.7 * ss.lognorm.cdf(sv, 0.4, scale=math.exp(0.5))
        if which == "e|P":
            be = 3.03 + k * (1 - fr)
            dens += ss.beta.logpdf(e, 0.867, be)
            pit = ss.beta.cdf(e, 0.867, be)
        else:
            dens += ss.beta.logpdf(e, 0.867, 3.03)
        if which == "s|P":
            sv = t["s"].to_value(u.km / u.s)
            dens += ss.lognorm.logpdf(sv, 0.5, scale=np.exp(-2.0 + k * fr))
            pit = ss.norm.cdf((np.log(sv) - (-2.0 + k * fr)) / 0.5)
        if gl:
            Kv = t["K"].to_value(u.km / u.s)
            if which == "K|P":
                dens += ss.norm.logpdf(Kv, 0.0, 1.0 + k * fr)
                pit = ss.norm.cdf(Kv / (1.0 + k * fr))
            else:
                sig = np.clip(20.0 * (Pd / 365.25) ** (-1.0 / 3) / np.sqrt(1 - e ** 2), 0, 500.0)
                dens += ss.norm.logpdf(Kv, 0.0, sig)
            dens += ss.norm.logpdf(t["v0"].to_value(u.km / u.s), 0.0, 10.0)
        pv = ss.kstest(pit, ss.uniform.cdf).pvalue
        if pv < 1e-9:
            raise Violation("draws of the dependent parameter (%s) do not follow its conditional distribution (KS p=%.3g)" % (which, pv))
        diff = lp - dens
        spread = float(np.max(diff) - np.min(diff))
        scale = float(np.max(np.abs(dens)) + np.max(np.abs(lp)) + 1)
        if not np.all(np.isfinite(lp)) or spread > 1e-6 * scale:
            j = int(np.argmax(np.abs(diff - np.median(diff))))
            raise Violation("ln_prior is not (up to one additive constant) the log of the joint density the rows were drawn from "
                            "(a parameter's prior depends on the period)", which=which, spread=spread, generate_linear=gl,
                            row_P=Pd[j], row_e=e[j], ln_prior=lp[j], declared_log_density=dens[j], typical_difference=float(np.median(diff)))
        ctx.note_case(c, True, ["conditional:" + which, "conditional:generate_linear=%s" % gl])

    return body


def run(ctx):
    ctx.search("conditional", conditional_cases(), conditional_body_factory(ctx), quick=24, thorough=600, shrink=False)
    ctx.search("densities", density_cases(), density_body_factory(ctx), quick=240, thorough=6000, shrink=ctx.quick is False)
    ctx.search("priors", prior_cases(), prior_body_factory(ctx, 4000 if ctx.quick else 20000), quick=100, thorough=2400,
               shrink=False)
