"""Hypothesis strategies for problem specifications and builders that turn a specification into
thejoker objects.  A specification is a plain JSON-able dict (see oracle_gauss.Problem).

All generation is by construction (no assume/filter except trivial uniqueness)."""
import math

import numpy as np
from hypothesis import strategies as st

from vt.oracle_gauss import ANG_UNITS, TIME_UNITS, VEL_UNITS, conv, unit

# ----------------------------------------------------------------------------- small helpers


def logfloat(lo, hi):
    """log-uniform float in [lo, hi]"""
    return st.floats(math.log(lo), math.log(hi), allow_nan=False).map(lambda x: float(math.exp(x)))


def fl(lo, hi):
    return st.floats(lo, hi, allow_nan=False, allow_infinity=False)


def rounded(x, nd=6):
    # keep numbers short in replay files; 6 significant digits is plenty of variety
    if x == 0 or not math.isfinite(x):
        return x
    return float("%.*g" % (nd, x))


# ----------------------------------------------------------------------------- data
@st.composite
def survey_times(draw, n, t0, baseline):
    layout = draw(st.sampled_from(["random", "clustered", "cadence", "dup"]))
    if layout == "random" or n == 1:
        ts = [t0 + draw(fl(0, baseline)) for _ in range(n)]
    elif layout == "clustered":
        nc = draw(st.integers(1, max(1, min(3, n))))
        centres = [draw(fl(0, baseline)) for _ in range(nc)]
        ts = [t0 + centres[draw(st.integers(0, nc - 1))] + draw(fl(0, baseline * 1e-3)) for _ in range(n)]
    elif layout == "cadence":
        step = baseline / max(1, n - 1)
        ts = [t0 + i * step for i in range(n)]
    else:  # exact duplicate epochs inside the survey
        base = [t0 + draw(fl(0, baseline)) for _ in range(max(1, n // 2))]
        ts = [base[draw(st.integers(0, len(base) - 1))] for _ in range(n)]
    ts = [rounded(x, 12) for x in ts]
    ts = draw(st.permutations(ts))
    return list(ts), layout


@st.composite
def surveys(draw, max_surveys=3, max_epochs=8, units=True, scale_range=(1e-3, 1e3), min_surveys=1):
    ns = draw(st.integers(min_surveys, max_surveys))
    t0 = rounded(draw(fl(40000.0, 62000.0)), 9)
    baseline = rounded(draw(logfloat(1e-2, 1e4)))
    scale = rounded(draw(logfloat(*scale_range)))  # km/s
    offset = rounded(draw(fl(-3, 3)) * scale)
    cross = draw(st.sampled_from(["interleaved", "disjoint", "reversed", "identical"])) if ns > 1 else "single"
    out = []
    first_t = None
    for k in range(ns):
        n = draw(st.integers(1, max_epochs))
        if cross == "identical" and k > 0:
            n = len(first_t)
            ts, lay = list(draw(st.permutations(first_t))), "identical"
        else:
            ts, lay = draw(survey_times(n, t0, baseline))
            if cross == "disjoint":
                ts = [rounded(x + 1.5 * baseline * k, 12) for x in ts]
            elif cross == "reversed":
                ts = [rounded(x + 1.5 * baseline * (ns - 1 - k), 12) for x in ts]
        if first_t is None:
            first_t = ts
        un = draw(st.sampled_from(VEL_UNITS)) if units else "km/s"
        f = float(conv(1.0, "km/s", un))
        rv = [rounded((offset + scale * draw(fl(-3, 3))) * f) for _ in range(n)]
        erel = draw(logfloat(1e-3, 10.0))
        err = [rounded(scale * erel * draw(fl(0.5, 2.0)) * f) for _ in range(n)]
        s = {"t": ts, "rv": rv, "err": err, "unit": un, "layout": lay}
        if units and draw(st.integers(0, 5)) == 0:
            eu = draw(st.sampled_from(VEL_UNITS))
            s["err_unit"] = eu
            s["err"] = [rounded(float(conv(e, un, eu))) for e in err]
        out.append(s)
    return {"surveys": out, "cross": cross, "scale_kms": scale, "baseline": baseline, "t0": t0}


# ----------------------------------------------------------------------------- prior
@st.composite
def normal_spec(draw, scale, un, allow_mean=True):
    """Normal(mu, sigma) with sigma ~ scale (given in `un`)."""
    sigma = rounded(scale * draw(logfloat(0.1, 30.0)))
    mu = 0.0
    if allow_mean and draw(st.booleans()):
        mu = rounded(sigma * draw(fl(-2, 2)))
    return {"mu": mu, "sigma": sigma, "unit": un}


@st.composite
def prior_spec(draw, n_offsets, scale_kms, baseline, max_poly=3, units=True, sampled_s=True):
    poly = draw(st.integers(1, max_poly))
    vu = (lambda: draw(st.sampled_from(VEL_UNITS))) if units else (lambda: "km/s")
    tu = (lambda: draw(st.sampled_from(["d", "yr"]))) if units else (lambda: "d")
    # period prior
    pun = draw(st.sampled_from(["d", "d", "yr", "h"])) if units else "d"
    pmin = rounded(draw(logfloat(0.1, 50.0)))
    pmax = rounded(pmin * draw(logfloat(1.01, 1e4)))
    P = {"kind": draw(st.sampled_from(["uniformlog", "uniformlog", "uniform"])),
         "min": rounded(float(conv(pmin, "d", pun))), "max": rounded(float(conv(pmax, "d", pun))), "unit": pun}
    if units and draw(st.integers(0, 3)) == 0:
        # P_max handed over in another time unit than P_min (the prior is declared in P_min's unit)
        P["max_unit"] = draw(st.sampled_from([x for x in TIME_UNITS if x != pun]))
    # K prior
    if draw(st.integers(0, 2)) < 2:
        ku = vu()
        sK0 = rounded(scale_kms * draw(logfloat(0.3, 30.0)) * float(conv(1.0, "km/s", ku)))
        p0u = draw(st.sampled_from(TIME_UNITS[:3])) if units else "yr"
        P0 = rounded(float(conv(draw(logfloat(1.0, 3000.0)), "d", p0u)))
        K = {"kind": "fcm", "sigma_K0": sK0, "sigma_K0_unit": ku, "P0": P0, "P0_unit": p0u, "max_K": None}
        if draw(st.booleans()):
            mu_ = vu()
            # a cap that binds for part of the rows
            K["max_K"] = rounded(scale_kms * draw(logfloat(0.3, 30.0)) * float(conv(1.0, "km/s", mu_)))
            K["max_K_unit"] = mu_
    else:
        ku = vu()
        K = dict(draw(normal_spec(scale_kms * float(conv(1.0, "km/s", ku)) * 3.0, ku)), kind="normal")
    # trend terms
    v = []
    for i in range(poly):
        vel, tim = vu(), tu()
        un = vel if i == 0 else "%s/%s%s" % (vel, tim, "" if i == 1 else "^%d" % i)
        sc_kms_day = scale_kms * 10.0 / (max(baseline, 1.0) ** i)
        sc = float(conv(sc_kms_day, "km/s" if i == 0 else "km/s/d" + ("" if i == 1 else "^%d" % i), un))
        v.append(draw(normal_spec(sc, un)))
    offs = []
    for _ in range(n_offsets):
        un = vu()
        offs.append(draw(normal_spec(scale_kms * float(conv(1.0, "km/s", un)), un)))
    # jitter prior (only matters for prior.sample; rows carry their own s)
    skind = draw(st.sampled_from(["const0", "const", "lognormal"])) if sampled_s else "const0"
    su = vu()
    s = {"kind": skind, "unit": su}
    if skind == "const":
        s["value"] = rounded(scale_kms * draw(logfloat(1e-2, 3.0)) * float(conv(1.0, "km/s", su)))
    elif skind == "lognormal":
        s["mu"] = rounded(math.log(scale_kms * float(conv(1.0, "km/s", su)) * draw(logfloat(1e-2, 1.0))))
        s["sigma"] = rounded(draw(fl(0.1, 1.5)))
    # how the prior object is assembled
    via = "default"
    if K["kind"] == "fcm" and (K["max_K"] is not None or draw(st.integers(0, 3)) == 0):
        via = "manual"
    if P["kind"] == "uniform" and draw(st.booleans()):
        via = "manual"
    return {"poly_trend": poly, "P": P, "K": K, "v": v, "offsets": offs, "s": s, "via": via}


@st.composite
def rows(draw, n, spec_prior, data_unit, scale_kms, err_kms):
    """Nonlinear rows in canonical units (day, rad, data unit for s)."""
    out = []
    f = float(conv(1.0, "km/s", data_unit))
    for _ in range(n):
        P = rounded(draw(logfloat(0.1, 1e5)), 9)
        ek = draw(st.integers(0, 9))
        if ek == 0:
            e = 0.0
        elif ek == 1:
            e = rounded(draw(fl(0.9, 0.99)), 9)
        else:
            e = rounded(draw(fl(0.0, 0.9)), 9)
        om = rounded(draw(fl(-4 * math.pi, 4 * math.pi)), 9)
        M0 = rounded(draw(fl(-4 * math.pi, 4 * math.pi)), 9)
        sk = draw(st.integers(0, 3))
        if sk == 0:
            s = 0.0
        else:
            s = rounded(err_kms * draw(logfloat(0.03, 30.0)) * f)
        out.append({"P": P, "e": e, "omega": om, "M0": M0, "s": s})
    return out


@st.composite
def row_units(draw, units=True):
    if not units:
        return {"P": "d", "omega": "rad", "M0": "rad", "s": None}
    return {"P": draw(st.sampled_from(TIME_UNITS)), "omega": draw(st.sampled_from(ANG_UNITS)),
            "M0": draw(st.sampled_from(ANG_UNITS)), "s": draw(st.sampled_from([None] + VEL_UNITS))}


@st.composite
def problems(draw, max_surveys=3, max_epochs=8, max_poly=3, n_rows=(4, 8), units=True, data_kinds=("list", "dict"),
             t_ref=True, min_surveys=1, allow_f4=False):
    d = draw(surveys(max_surveys=max_surveys, max_epochs=max_epochs, units=units, min_surveys=min_surveys))
    sv = d["surveys"]
    ns = len(sv)
    spec = {"surveys": sv, "cross": d["cross"]}
    if ns == 1:
        spec["data_kind"] = "single"
        k_ref = draw(st.integers(0, 7)) if t_ref else 7
        if k_ref in (0, 1):
            # explicit reference epoch before / inside / after the data
            spec["t_ref"] = rounded(d["t0"] + d["baseline"] * draw(fl(-1.0, 2.0)), 12)
            spec["t_ref_scale"] = draw(st.sampled_from(["tcb", "utc"]))
        elif k_ref == 2 and t_ref == "allow_false":
            spec["t_ref_false"] = True   # RVData(..., t_ref=False): times are not referred to any epoch (t_ref = BMJD 0)
    else:
        spec["data_kind"] = draw(st.sampled_from(list(data_kinds)))
        if spec["data_kind"] == "dict":
            kk = draw(st.sampled_from(["str", "int"]))
            if kk == "str":
                keys = draw(st.permutations(["a", "bb", "c", "D", "zz"][:ns]))
            else:
                keys = draw(st.permutations([3, 11, 20, 7, 1][:ns]))
            spec["keys"] = list(keys)
    spec["time_input"] = draw(st.sampled_from(["float", "float", "tcb", "utc"]))
    if ns == 1 and not spec.get("t_ref") and not spec.get("t_ref_false") and draw(st.sampled_from([False, False, False, True])):
        sv[0]["slice_lead"] = draw(st.integers(1, 3))
    if draw(st.sampled_from([False, False, False, True])):
        for s_ in sv:
            lo_, hi_ = min(s_["t"]), max(s_["t"])
            s_["bad"] = [{"t": rounded(lo_ + (hi_ - lo_ + 1.0) * draw(fl(-0.5, 1.2)), 9), "what": draw(st.sampled_from(["rv", "err"])),
                          "val": draw(st.sampled_from(["nan", "inf", "-inf"]))} for _ in range(draw(st.integers(1, 2)))]
    spec["prior"] = draw(prior_spec(ns - 1, d["scale_kms"], d["baseline"], max_poly=max_poly, units=units))
    errs = [float(conv(e, s.get("err_unit", s["unit"]), "km/s")) for s in sv for e in s["err"]]
    nr = draw(st.integers(*n_rows))
    spec["rows"] = draw(rows(nr, spec["prior"], sv[0]["unit"], d["scale_kms"], float(np.median(errs))))
    spec["row_units"] = draw(row_units(units))
    spec["lib_history"] = draw(st.sampled_from(LIB_HISTORIES))
    if allow_f4 and draw(st.integers(0, 7)) == 0:
        # single-precision library, stored in the sampler's internal units (so that no path does unit arithmetic in
        # float32: only the documented up-cast to float64 is exercised)
        spec["row_dtype"] = "f4"
        spec["row_units"] = {"P": "d", "omega": "rad", "M0": "rad", "s": None}
    return spec


# ----------------------------------------------------------------------------- builders (spec -> thejoker objects)
def build_rvdata(s, time_input="float", t_ref=None, t_ref_scale="tcb"):
    import astropy.units as u  # noqa: F401
    from astropy.time import Time

    from thejoker import RVData

    t = np.array(s["t"], dtype=float)
    rv_ = np.array(s["rv"], dtype=float)
    err_ = np.array(s["err"], dtype=float)
    if s.get("bad"):
        # further table rows whose velocity or uncertainty is not finite (RVData drops them; the problem is that of the
        # finite rows), scattered among the others in catalogue order
        bt = np.array([b["t"] for b in s["bad"]], dtype=float)
        brv = np.array([float(b["val"]) if b["what"] == "rv" else 1.0 for b in s["bad"]])
        ber = np.array([float(b["val"]) if b["what"] == "err" else float(np.median(err_)) for b in s["bad"]])
        # (the finite rows keep their relative order, so that what RVData sorts is exactly the array the oracle mirrors)
        for j_ in range(len(bt)):
            pos = int(np.random.default_rng(len(t) + 7 + j_).integers(0, len(t) + 1))
            t, rv_, err_ = np.insert(t, pos, bt[j_]), np.insert(rv_, pos, brv[j_]), np.insert(err_, pos, ber[j_])
    if time_input == "tcb":
        t_in = Time(t, format="mjd", scale="tcb")
    elif time_input == "utc":
        t_in = Time(t, format="mjd", scale="tcb").utc
    else:
        t_in = t
    kw = {}
    if t_ref is False:
        kw["t_ref"] = False
    elif t_ref is not None:
        tr = Time(t_ref, format="mjd", scale="tcb")
        kw["t_ref"] = tr.utc if t_ref_scale == "utc" else tr
    k_lead = int(s.get("slice_lead") or 0)
    if k_lead and not kw and time_input == "float":
        # the data set is obtained by slicing a longer one: `k_lead` earlier epochs are observed as well and cut off again
        # (a slice is a data set of its own, referred to its own earliest epoch)
        lead_t = float(np.min(np.array(s["t"], dtype=float))) - 1.0 - np.arange(k_lead, dtype=float)
        rv_fill = float(np.median(np.array(s["rv"], dtype=float)))       # (finite: taken from the problem's own rows)
        err_fill = float(np.median(np.array(s["err"], dtype=float)))
        full = RVData(t=np.concatenate([t, lead_t]), rv=np.concatenate([rv_, np.full(k_lead, rv_fill)]) * unit(s["unit"]),
                      rv_err=np.concatenate([err_, np.full(k_lead, err_fill)]) * unit(s.get("err_unit", s["unit"])))
        return full[k_lead:]
    return RVData(t=t_in, rv=rv_ * unit(s["unit"]), rv_err=err_ * unit(s.get("err_unit", s["unit"])), **kw)


def check_public_epoch(data, prob, spec=None):
    """The reference epoch a data object shows to its user is the one the computation is referred to (Problem.t_ref)."""
    from vt.runner import Violation

    if isinstance(data, (list, tuple, dict)):
        return
    if spec is not None and spec.get("t_ref_false"):
        if data.t_ref is not None or float(data._t_ref_bmjd) != 0.0:
            raise Violation("t_ref=False: the data object still carries a reference epoch", t_ref=repr(data.t_ref))
        return
    pub = None if data.t_ref is None else float(data.t_ref.tcb.mjd)
    if pub is None or abs(pub - float(prob.t_ref)) > 1e-9 or abs(float(data._t_ref_bmjd) - pub) > 1e-9:
        raise Violation("the data object's reference epoch (public t_ref / the number the likelihood uses) is not the declared one",
                        public_t_ref=pub, internal=float(data._t_ref_bmjd), declared=float(prob.t_ref))


def build_data(spec):
    sv = spec["surveys"]
    ti = spec.get("time_input", "float")
    if spec["data_kind"] == "single":
        return build_rvdata(sv[0], ti, False if spec.get("t_ref_false") else spec.get("t_ref"), spec.get("t_ref_scale", "tcb"))
    # members of a multi-survey input may carry reference epochs of their own (the merged data set is referred to its
    # earliest observation whatever they are)
    mt = spec.get("member_t_ref") or [None] * len(sv)
    ds = [build_rvdata(s, ti, mt[k], spec.get("member_t_ref_scale", "tcb")) for k, s in enumerate(sv)]
    if spec["data_kind"] == "dict":
        return {k: d for k, d in zip(spec["keys"], ds)}
    if spec["data_kind"] == "tuple":
        return tuple(ds)
    return ds


def build_prior(pr):
    import astropy.units as u
    import pymc as pm

    import thejoker as tj
    import thejoker.units as xu
    from thejoker.distributions import FixedCompanionMass, UniformLog

    poly = pr["poly_trend"]
    with pm.Model() as model:
        offs = [xu.with_unit(pm.Normal("dv0_%d" % (i + 1), o["mu"], o["sigma"]), unit(o["unit"]))
                for i, o in enumerate(pr["offsets"])]
        P, K, s, v = pr["P"], pr["K"], pr["s"], pr["v"]
        pu = unit(P["unit"])
        if pr["via"] == "default":
            pars = {}
            kw = dict(poly_trend=poly, v0_offsets=offs, model=model)
            if P["kind"] == "uniformlog":
                pmax = P["max"] * pu
                if P.get("max_unit"):
                    pmax = pmax.to(unit(P["max_unit"]))
                kw.update(P_min=P["min"] * pu, P_max=pmax)
            else:
                pars["P"] = xu.with_unit(pm.Uniform("P", P["min"], P["max"]), pu)
            if pr.get("e_fixed") is not None:
                # eccentricity held constant (e.g. circular orbits only), as in the documentation's fixed-parameter examples
                import pytensor.tensor as pt_
                pars["e"] = xu.with_unit(pm.Deterministic("e", pt_.constant(float(pr["e_fixed"]))), u.one)
            if s["kind"] == "const":
                kw["s"] = s["value"] * unit(s["unit"])
            elif s["kind"] == "lognormal":
                pars["s"] = xu.with_unit(pm.Lognormal("s", s["mu"], s["sigma"]), unit(s["unit"]))
            if K["kind"] == "fcm":
                kw.update(sigma_K0=K["sigma_K0"] * unit(K["sigma_K0_unit"]), P0=K["P0"] * unit(K["P0_unit"]))
            else:
                pars["K"] = xu.with_unit(pm.Normal("K", K["mu"], K["sigma"]), unit(K["unit"]))
            if all(x["mu"] == 0 for x in v):
                sig = [x["sigma"] * unit(x["unit"]) for x in v]
                kw["sigma_v"] = sig[0] if poly == 1 else sig
            else:
                for i, x in enumerate(v):
                    pars["v%d" % i] = xu.with_unit(pm.Normal("v%d" % i, x["mu"], x["sigma"]), unit(x["unit"]))
            prior = tj.JokerPrior.default(pars=pars or None, **kw)
        else:
            pars = {}
            if P["kind"] == "uniformlog":
                pars["P"] = xu.with_unit(UniformLog("P", P["min"], P["max"]), pu)
            else:
                pars["P"] = xu.with_unit(pm.Uniform("P", P["min"], P["max"]), pu)
            pars["e"] = xu.with_unit(pm.Beta("e", 0.867, 3.03), u.one)
            pars["omega"] = xu.with_unit(pm.Uniform("omega", 0, 2 * np.pi), u.rad)
            pars["M0"] = xu.with_unit(pm.Uniform("M0", 0, 2 * np.pi), u.rad)
            if s["kind"] == "lognormal":
                pars["s"] = xu.with_unit(pm.Lognormal("s", s["mu"], s["sigma"]), unit(s["unit"]))
            else:
                import pytensor.tensor as pt
                pars["s"] = xu.with_unit(pm.Deterministic("s", pt.constant(float(s.get("value", 0.0)))), unit(s["unit"]))
            if K["kind"] == "fcm":
                fkw = dict(P=pars["P"], e=pars["e"], sigma_K0=K["sigma_K0"] * unit(K["sigma_K0_unit"]),
                           P0=K["P0"] * unit(K["P0_unit"]))
                if K.get("max_K") is not None:
                    fkw["max_K"] = K["max_K"] * unit(K["max_K_unit"])
                if K.get("mu"):
                    fkw["mu"] = K["mu"]
                pars["K"] = xu.with_unit(FixedCompanionMass("K", **fkw), unit(K["sigma_K0_unit"]))
            else:
                pars["K"] = xu.with_unit(pm.Normal("K", K["mu"], K["sigma"]), unit(K["unit"]))
            for i, x in enumerate(v):
                pars["v%d" % i] = xu.with_unit(pm.Normal("v%d" % i, x["mu"], x["sigma"]), unit(x["unit"]))
            if pr.get("pars_order") is not None:
                # the constructor takes a dict (or list) of variables: their order is the caller's business
                names_ = list(pars)
                perm_ = np.random.default_rng(int(pr["pars_order"])).permutation(len(names_))
                pars = {names_[i]: pars[names_[i]] for i in perm_}
            prior = tj.JokerPrior(pars=pars, poly_trend=poly, v0_offsets=offs, model=model)
    return prior


def build_samples(spec, rows=None, extra=None):
    """JokerSamples holding the nonlinear rows, each column in the unit chosen by row_units."""
    import thejoker as tj

    rows = spec["rows"] if rows is None else rows
    ru = spec.get("row_units") or {}
    du = spec["surveys"][0]["unit"]
    pr = spec["prior"]
    smp = tj.JokerSamples(poly_trend=pr["poly_trend"], n_offsets=len(pr["offsets"]))
    smp["P"] = conv([r["P"] for r in rows], "d", ru.get("P", "d")) * unit(ru.get("P", "d"))
    smp["e"] = np.array([r["e"] for r in rows], dtype=float)
    smp["omega"] = conv([r["omega"] for r in rows], "rad", ru.get("omega", "rad")) * unit(ru.get("omega", "rad"))
    smp["M0"] = conv([r["M0"] for r in rows], "rad", ru.get("M0", "rad")) * unit(ru.get("M0", "rad"))
    su = ru.get("s") or du
    smp["s"] = conv([r["s"] for r in rows], du, su) * unit(su)
    if spec.get("row_dtype") == "f4":
        # prior.sample(dtype=np.float32) produces single-precision libraries; the sampler must up-cast them
        for nm in ("P", "e", "omega", "M0", "s"):
            smp[nm] = smp[nm].astype(np.float32)
    if extra:
        for k, val in extra.items():
            smp[k] = val
    age_samples(smp, spec.get("lib_history"))
    return smp


LIB_HISTORIES = [None, None, None, None, "pack_units", "setitem", "inplace"]


def age_samples(smp, mode):
    """Give a JokerSamples object a previous life that ends in its present content (the content itself is untouched):
      pack_units : its packed form was requested before, once in other units (a read-only operation)
      setitem    : it held other values, was packed (as the in-memory samplers do), then its columns were re-assigned
      inplace    : the same, the columns being overwritten in place (samples["P"][:] = ..., as wrap_K does)
    Results computed from it afterwards must depend on its present content only."""
    import astropy.units as u

    if not mode or len(smp) == 0:
        return smp
    if mode == "pack_units":
        smp.pack(units={"P": u.year, "omega": u.deg, "M0": u.deg})
        smp.pack(nonlinear_only=True)
        return smp
    cols = [nm for nm in ("P", "e", "omega", "M0") if nm in smp.par_names]
    truth = {nm: smp[nm].copy() for nm in cols}
    for nm in cols:
        alt = truth[nm] * (0.5 if nm == "e" else 2.0)
        if mode == "setitem":
            smp[nm] = alt
        else:
            smp[nm][:] = alt
    smp.pack()
    smp.pack(nonlinear_only=False)
    for nm in cols:
        if mode == "setitem":
            smp[nm] = truth[nm]
        else:
            smp[nm][:] = truth[nm]
    for nm in cols:
        assert np.array_equal(np.asarray(smp[nm].value), np.asarray(truth[nm].value)), "harness: ageing changed the content"
    return smp
