"""C08 - multi-survey data keep every observation tied to its own survey offset."""
import numpy as np
from hypothesis import strategies as st

from vt import gens
from vt import oracle_gauss as og
from vt.checks import c01
from vt.runner import Violation

RULE = ("(labels) 1-4 surveys x 1-12 epochs, layouts {disjoint in order, disjoint reversed, interleaved, identical epochs "
        "across surveys, duplicates}, list / tuple / dict (string or integer keys in any insertion order), velocity units "
        "per survey; every observation carries a tag (survey*1000 + serial) in its velocity and a unique error, so the "
        "merged arrays reveal their origin. Oracle: merged multiset == union of the inputs; ids[row] == survey read from "
        "the tag; offset columns of the design matrix == indicator functions of surveys 2..k in input order (dict: of the "
        "key-sorted surveys, exactly one reference survey with all-zero offset columns). (likelihood) problems of C01 "
        "with >=2 surveys: marginal_ln_likelihood == closed form with the correct labels, and the closed form with "
        "deliberately permuted labels differs (guard against a vacuous comparison). (plots) plot_rv_curves / "
        "plot_phase_fold on tagged multi-survey data (list / tuple / dict): every plotted velocity must be an observation "
        "with exactly its own survey's offset removed. Non-trivial: >=2 surveys whose "
        "time-sorted label sequence differs from the concatenation-order labels (interleaved / reversed / identical epochs)."
        " Also: layouts 'touching' (first epoch of a survey == last epoch of its predecessor) and 'copy' (a source repeated in part), tag blocks permuted among surveys, label counts per survey; a label mismatch counts as recorded defect F5 only when the rows are exactly where a time sort of the concatenated sources puts them; plots drawn twice from the same objects, in a unit independent of the data unit, remove_trend on/off.")
SHARDS = {"quick": 4, "thorough": 16}
BUDGET = {"quick": 70, "thorough": 700}


@st.composite
def tagged(draw, thorough=False):
    ns = draw(st.integers(1, 5 if thorough else 4))
    cross = draw(st.sampled_from(["interleaved", "disjoint", "reversed", "identical", "interleaved", "touching", "touching",
                                  "copy"])) if ns > 1 else "single"
    # which block of tag values (1000, 2000, ...) each survey uses: not necessarily increasing with the survey number
    tag_perm = list(draw(st.permutations(list(range(ns)))))
    t0 = gens.rounded(draw(gens.fl(50000.0, 60000.0)), 9)
    base = gens.rounded(draw(gens.logfloat(1e-2, 1e3)))
    sv = []
    first = None
    for k in range(ns):
        n = draw(st.integers(1, 24 if thorough else 12))
        if cross == "identical" and k > 0:
            ts = list(draw(st.permutations(first)))
            n = len(ts)
        else:
            ts, _ = draw(gens.survey_times(n, t0, base))
            if cross == "disjoint":
                ts = [gens.rounded(x + 1.5 * base * k, 12) for x in ts]
            elif cross == "touching":
                # one survey after the other, the first epoch of each coinciding exactly with the last epoch of its predecessor
                ts = sorted(gens.rounded(x + 1.5 * base * k, 12) for x in ts)
                if sv:
                    ts[0] = max(sv[-1]["t"])
            elif cross == "reversed":
                ts = [gens.rounded(x + 1.5 * base * (ns - 1 - k), 12) for x in ts]
        if first is None:
            first = ts
        un = draw(st.sampled_from(og.VEL_UNITS))
        # the tag is stored in km/s-equivalent integers and expressed in the survey's own unit
        kt = tag_perm[k]
        rv = [float(og.conv(1000.0 * (kt + 1) + j, "km/s", un)) for j in range(n)]
        err = [float(og.conv(1.0 + 0.001 * (kt * 50 + j), "km/s", un)) for j in range(n)]
        if cross == "copy" and k > 0:
            # the same measurements distributed by two catalogues: an exact copy of (part of) the first survey
            m_ = draw(st.integers(1, len(sv[0]["t"])))
            sv.append({"t": list(sv[0]["t"][:m_]), "rv": list(sv[0]["rv"][:m_]), "err": list(sv[0]["err"][:m_]), "unit": sv[0]["unit"]})
            continue
        sv.append({"t": ts, "rv": rv, "err": err, "unit": un})
    kind = draw(st.sampled_from(["list", "tuple", "dict", "dict"])) if ns > 1 else draw(st.sampled_from(["single", "list"]))
    case = {"surveys": sv, "cross": cross, "data_kind": kind, "poly_trend": draw(st.integers(1, 3)), "tag_perm": tag_perm}
    if kind == "dict":
        if draw(st.booleans()):
            case["keys"] = list(draw(st.permutations(["a", "bb", "c", "D", "zz"][:ns])))
        else:
            case["keys"] = list(draw(st.permutations([3, 11, 20, 7, 1][:ns])))
    return case


def labels_body_factory(ctx):
    from thejoker.data_helpers import validate_prepare_data

    def body(case):
        check_one(case)
        # the same merged epochs, split differently between the first two surveys (a second star observed on the same
        # nights): nothing remembered from the first data set may be re-used for it
        sv = case["surveys"]
        if len(sv) >= 2 and case["cross"] not in ("copy",) and len(sv[0]["t"]) >= 1 and len(sv[1]["t"]) >= 1 \
                and sv[0]["t"][-1] != sv[1]["t"][0]:
            import copy as _copy
            case2 = _copy.deepcopy(case)
            a, b = case2["surveys"][0]["t"], case2["surveys"][1]["t"]
            a[-1], b[0] = b[0], a[-1]
            check_one(case2)

    def check_one(case):
        sv = case["surveys"]
        ns = len(sv)
        data = gens.build_data(case)
        with ctx.sut("validate_prepare_data"):
            all_data, ids, M = validate_prepare_data(data, case["poly_trend"], ns - 1)
        du = og.unit(sv[0]["unit"])
        n = sum(len(s["t"]) for s in sv)
        if len(all_data) != n or len(ids) != n or M.shape != (n, ns - 1 + case["poly_trend"]):
            raise Violation("merged data / ids / design matrix have the wrong size",
                            n=n, len_data=len(all_data), len_ids=len(ids), M_shape=M.shape)
        if all_data.rv.unit != du:
            raise Violation("merged data are not in the first source's unit", unit=str(all_data.rv.unit))
        # (a) union of inputs
        want = sorted((float(t), round(float(og.conv(r, s["unit"], "km/s")), 6), round(float(og.conv(e, s["unit"], "km/s")), 9))
                      for s in sv for t, r, e in zip(s["t"], s["rv"], s["err"]))
        rv_kms = all_data.rv.to_value("km/s")
        err_kms = all_data.rv_err.to_value("km/s")
        got = sorted((float(t), round(float(r), 6), round(float(e), 9)) for t, r, e in zip(all_data._t_bmjd, rv_kms, err_kms))
        if got != want:
            raise Violation("merged data set is not the union of the input observations", got=got[:6], want=want[:6])
        if np.any(np.diff(all_data._t_bmjd) < 0):
            raise Violation("merged data not ordered by time")
        keys = case.get("keys") or list(range(ns))
        ids_arr = np.asarray(ids)
        for k in range(ns):
            cnt = int(np.sum(ids_arr == keys[k])) if ns > 1 or case["data_kind"] != "single" else n
            if ns > 1 and cnt != len(sv[k]["t"]):
                raise Violation("survey %r contributed %d observations but %d rows carry its label" % (keys[k], len(sv[k]["t"]), cnt))
        if case["cross"] == "copy":
            # identical measurements in two sources cannot be told apart by their values: union and label counts is all
            ctx.note_case(case, True, ["ns=%d" % ns, "kind:" + case["data_kind"], "cross:copy"])
            return
        # (b) label of every row == survey read from its tag
        tag_perm = case.get("tag_perm") or list(range(ns))
        block = (np.round(rv_kms).astype(int) // 1000) - 1          # which block of tag values
        tag_survey = np.array([tag_perm.index(int(b)) if 0 <= b < ns else -1 for b in block])
        serial = np.round(rv_kms).astype(int) % 1000
        # error must belong to the same observation
        exp_err = 1.0 + 0.001 * (block * 50 + serial)
        if not (np.max(np.abs(err_kms - exp_err)) <= 1e-9):
            raise Violation("velocity and uncertainty of one observation were separated")
        true_labels = [keys[k] for k in tag_survey]
        ids_l = list(np.asarray(ids).tolist()) if ns > 1 or case["data_kind"] != "single" else list(ids)
        f5 = False
        if [str(x) for x in ids_l] != [str(x) for x in true_labels]:
            concat = [keys[k] for k in range(ns) for _ in sv[k]["t"]]
            if [str(x) for x in ids_l] == [str(x) for x in concat] and ns > 1:
                # recorded defect F5: the labels were left in concatenation order while the rows were sorted by time.  That
                # explains the mismatch only if the rows are where a time sort of the concatenated sources puts them
                tc = np.concatenate([np.sort(np.asarray(s_["t"], dtype=float)) for s_ in sv])
                kc = np.concatenate([np.full(len(s_["t"]), k_) for k_, s_ in enumerate(sv)])
                expect = kc[np.argsort(tc)]
                if not np.array_equal(tag_survey, expect):
                    raise Violation("survey labels are not aligned with the merged observations (and the rows are not in the "
                                    "order of a time sort of the concatenated sources, so the recorded defect F5 does not "
                                    "explain it)", ids=ids_l[:20], true=true_labels[:20], expected_survey_order=expect[:20].tolist())
                f5 = True
                ctx.known("F5")
            else:
                raise Violation("survey labels are not aligned with the merged observations",
                                ids=ids_l[:20], true=true_labels[:20])
        # (c) offset columns
        lab = np.array([str(x) for x in (ids_l if f5 else true_labels)])
        if not np.allclose(M[:, 0], 1.0):
            raise Violation("constant column is not all ones")
        if case["data_kind"] == "dict":
            order = [str(x) for x in sorted(keys)]
        else:
            order = [str(x) for x in keys]
        for r in range(1, ns):
            ind = (lab == order[r]).astype(float)
            if not np.array_equal(M[:, r], ind):
                raise Violation("offset column %d is not the indicator of survey %r" % (r, order[r]),
                                column=M[:, r].tolist()[:20], indicator=ind.tolist()[:20])
        dt = all_data._t_bmjd - all_data._t_bmjd.min()
        for i in range(1, case["poly_trend"]):
            if not np.allclose(M[:, ns - 1 + i], dt ** i, rtol=1e-12, atol=0):
                raise Violation("trend column %d is not (t - t_ref)^%d" % (i, i))
        if abs(all_data._t_ref_bmjd - all_data._t_bmjd.min()) > 0:
            raise Violation("reference epoch of the merged data is not its earliest time")
        sorted_true = [str(x) for x in true_labels]
        concat = [str(keys[k]) for k in range(ns) for _ in sv[k]["t"]]
        nontrivial = ns >= 2 and sorted_true != concat
        ctx.note_case(case, nontrivial, ["ns=%d" % ns, "kind:" + case["data_kind"], "cross:" + case["cross"],
                                         "labels_permuted_by_sort" if nontrivial else "labels_in_order"])

    return body


def likelihood_body_factory(ctx):
    inner = c01.body_factory(ctx)

    def body(spec):
        # guard: the closed form must be sensitive to the labels for this case, otherwise the comparison is vacuous
        prob = og.Problem(spec)
        if prob.n_offsets >= 1 and len(set(prob.ids.tolist())) > 1:
            row = dict(spec["rows"][0])
            if row["e"] <= 0.99:
                ev = og.evaluate(prob, row)
                ids0 = prob.ids.copy()
                prob.ids = np.roll(ids0, 1)
                if not np.array_equal(prob.ids, ids0):
                    ev2 = og.evaluate(prob, row)
                    if abs(ev2["ll"] - ev["ll"]) > 10 * (og.tol_of(ev) + og.tol_of(ev2)):
                        ctx.classes["guard:labels matter"] += 1
                    else:
                        ctx.classes["guard:labels immaterial"] += 1
        inner(spec)

    return body


@st.composite
def multi_cases(draw, thorough=False):
    spec = draw(gens.problems(max_surveys=4, max_epochs=20 if thorough else 8, max_poly=3, n_rows=(3, 6), min_surveys=2,
                              data_kinds=("list", "dict", "tuple")))
    spec["path"] = draw(st.sampled_from(["mem", "mem", "cache"]))
    return spec


# ----------------------------------------------------------------------------- plotted data carry their own survey's offset
@st.composite
def plot_cases(draw):
    ns = draw(st.integers(2, 4))
    kind = draw(st.sampled_from(["list", "dict", "dict", "tuple"]))
    case = {"ns": ns, "kind": kind, "sizes": [draw(st.integers(1, 6)) for _ in range(ns)],
            "offsets": [gens.rounded(draw(gens.fl(-40, 40)), 6) for _ in range(ns - 1)],
            "which": draw(st.sampled_from(["rv_curves", "phase_fold"])), "seed": draw(st.integers(0, 10**6)),
            "unit": draw(st.sampled_from(["km/s", "m/s"])), "plot_unit": draw(st.sampled_from(["km/s", "m/s"])),
            "remove_trend": draw(st.booleans())}
    if kind == "dict":
        if draw(st.booleans()):
            case["keys"] = list(draw(st.permutations(["a", "bb", "c", "D"][:ns])))
        else:
            case["keys"] = list(draw(st.permutations([3, 11, 20, 7][:ns])))
    return case


def plot_body_factory(ctx):
    import astropy.units as u
    import matplotlib
    matplotlib.use("Agg")
    import matplotlib.pyplot as plt
    from astropy.time import Time

    import thejoker as tj

    def body(case):
        ns = case["ns"]
        g = np.random.default_rng(case["seed"])
        un = og.unit(case["unit"])
        f = float(og.conv(1.0, "km/s", case["unit"]))
        ds = []
        t0 = 57000.0
        for k in range(ns):
            n = case["sizes"][k]
            # surveys one after the other in time (the merged rows then keep concatenation order: defect F5 idle)
            t = t0 + 100.0 * k + np.sort(g.uniform(0, 50, n))
            rv = (1000.0 * (k + 1) + np.arange(n)) * f   # tag: survey*1000 + serial (in km/s)
            ds.append(tj.RVData(t=t, rv=rv * un, rv_err=np.full(n, 0.5 * f) * un))
        keys = case.get("keys") or list(range(ns))
        data = {k_: d for k_, d in zip(keys, ds)} if case["kind"] == "dict" else (tuple(ds) if case["kind"] == "tuple" else ds)
        # which survey is the reference / gets dv0_r: list -> input order, dict -> key order
        order = sorted(range(ns), key=lambda i: keys[i]) if case["kind"] == "dict" else list(range(ns))
        s = tj.JokerSamples(n_offsets=ns - 1, t_ref=Time(t0, format="mjd", scale="tcb"))
        s["P"] = [30.0] * u.day
        s["e"] = [0.2]
        s["omega"] = [1.0] * u.rad
        s["M0"] = [0.5] * u.rad
        s["s"] = [0.0] * u.km / u.s
        s["K"] = [3.0] * u.km / u.s
        s["v0"] = [0.0] * u.km / u.s
        # (offset columns filled in ascending or descending order: a table is addressed by column name, not position)
        for r in (range(1, ns) if case["seed"] % 2 else range(ns - 1, 0, -1)):
            s["dv0_%d" % r] = [case["offsets"][r - 1]] * u.km / u.s
        before = [(np.array(d.rv.value, copy=True), np.array(d.rv_err.value, copy=True), np.array(d._t_bmjd, copy=True)) for d in ds]
        pun = og.unit(case.get("plot_unit", case["unit"]))
        fp = float(og.conv(1.0, "km/s", case.get("plot_unit", case["unit"])))
        n_tot = sum(case["sizes"])
        # the same call twice on the same objects: the second picture must show the same observations
        for rep in ("first", "second"):
            fig, ax = plt.subplots()
            try:
                with ctx.sut("plot_" + case["which"]):
                    if case["which"] == "rv_curves":
                        tj.plot_rv_curves(s, data=data, ax=ax, rv_unit=pun, t_grid=np.linspace(t0, t0 + 10, 8))
                        fy = fp
                    else:
                        tj.plot_phase_fold(s, data=data, ax=ax, remove_trend=case.get("remove_trend", False))
                        fy = f
                cont = [c for c in ax.containers if type(c).__name__ == "ErrorbarContainer"]
                if not cont:
                    raise Violation("no data points were drawn")
                y = np.asarray(cont[0].lines[0].get_ydata(), dtype=float)
            finally:
                plt.close(fig)
            for d, (rv0, err0, tt0) in zip(ds, before):
                if not (np.array_equal(d.rv.value, rv0) and np.array_equal(d.rv_err.value, err0) and np.array_equal(d._t_bmjd, tt0)):
                    raise Violation("plot_%s modified the caller's RVData objects" % case["which"])
            # every plotted point: its tag tells the survey; the survey's own offset (and only that) must have been removed
            if len(y) != n_tot:
                raise Violation("plotted %d data points, %d observations given" % (len(y), n_tot))
            y_kms = y / fy
            for val in y_kms:
                best = None
                for k in range(ns):
                    r = order.index(k)              # 0 = reference survey, r>=1 -> dv0_r
                    off = 0.0 if r == 0 else case["offsets"][r - 1]
                    resid = val + off - 1000.0 * (k + 1)
                    if -1e-6 <= resid <= case["sizes"][k] - 1 + 1e-6 and abs(resid - round(resid)) < 1e-6:
                        best = k
                if best is None:
                    raise Violation("a plotted velocity is not an observation with its own survey's offset removed (%s call "
                                    "on these data objects)" % rep, plotted_km_s=float(val), offsets=case["offsets"], keys=keys,
                                    kind=case["kind"], which=case["which"], data_unit=case["unit"], plot_unit=case.get("plot_unit"))
        ctx.note_case(case, True, ["plot:" + case["which"], "plot:kind=" + case["kind"], "plot:ns=%d" % ns,
                                   "plot:unit %s data unit" % ("==" if case.get("plot_unit", case["unit"]) == case["unit"] else "!=")])

    return body


def run(ctx):
    ctx.search("plots", plot_cases(), plot_body_factory(ctx), quick=300, thorough=6000)
    ctx.search("labels", tagged(thorough=not ctx.quick), labels_body_factory(ctx), quick=1500, thorough=40000)
    ctx.search("likelihood", multi_cases(thorough=not ctx.quick), likelihood_body_factory(ctx), quick=500, thorough=12000)
