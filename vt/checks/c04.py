"""C04 - a sample row denotes one RV curve everywhere (Bayes identity holds)."""
import math

import numpy as np
from hypothesis import strategies as st

from vt import gens
from vt import oracle_gauss as og
from vt.checks import c01, c03
from vt.runner import Violation

RULE = ("Problems of C01 (poly_trend 1-3, 0-2 offsets, custom t_ref, jitter) with (i) hand-built sample rows carrying "
        "arbitrary linear values (K of either sign) and (ii) rows returned by rejection_sample(return_logprobs=True). "
        "Oracle: samples.get_orbit(i).radial_velocity(t) == M(theta) x with an independent (longdouble Newton/bisection) "
        "Kepler solve, at the data epochs and at 16 generated off-data epochs; samples.t_ref of sampler output == the "
        "(merged) data's reference epoch; samples.ln_unmarginalized_likelihood(data') == sum ln N(y' | M x, sigma^2+s^2) "
        "with each survey's offset subtracted; Bayes identity closed-form marginal(theta) == ln p(y'|theta,x) [code] + "
        "ln p(x|theta) - ln N(x|a,A) [closed form]; reported ln_likelihood == closed-form marginal (C01 comparison, "
        "recorded defects recognised). Non-trivial: (poly_trend>=2 or custom t_ref or offsets or s>0) and K != 0, e > 0."
        ' Also: returned linear columns == the recorded multivariate_normal draws (block-wise for 1-3 draws per sample); members of multi-survey input with own (shared / distinct, TCB / UTC) reference epochs; comparison data with uncertainties in another unit.')
SHARDS = {"quick": 4, "thorough": 16}
BUDGET = {"quick": 80, "thorough": 800}


@st.composite
def cases(draw, thorough=False):
    spec = draw(gens.problems(max_surveys=3, max_epochs=16 if thorough else 8, max_poly=3, n_rows=(2, 5), units=True))
    spec["path"] = draw(st.sampled_from(["mem", "cache"]))
    if len(spec["surveys"]) > 1:
        mode = draw(st.sampled_from(["default", "default", "shared", "distinct"]))
        tmin = min(x for sv_ in spec["surveys"] for x in sv_["t"])
        if mode == "shared":
            spec["member_t_ref"] = [gens.rounded(tmin - draw(gens.fl(0.5, 50.0)), 9)] * len(spec["surveys"])
        elif mode == "distinct":
            spec["member_t_ref"] = [gens.rounded(tmin - draw(gens.fl(0.5, 50.0)), 9) for _ in spec["surveys"]]
        spec["member_t_ref_scale"] = draw(st.sampled_from(["tcb", "utc"]))
    spec["rng_seed"] = draw(st.integers(0, 2**32 - 1))
    n_lin = 1 + spec["prior"]["poly_trend"] + len(spec["prior"]["offsets"])
    spec["x"] = [[gens.rounded(draw(gens.fl(-3, 3)), 9) for _ in range(n_lin)] for _ in spec["rows"]]
    spec["t_off"] = [gens.rounded(draw(gens.fl(-2.0, 3.0)), 6) for _ in range(16)]
    return spec


def ln_normal_sum(y, mean, var):
    return float(np.sum(-0.5 * (np.log(2 * np.pi * var) + (y - mean) ** 2 / var)))


def body_factory(ctx):
    import astropy.units as u
    from astropy.time import Time

    import thejoker as tj

    def check_rows(spec, prob, data_list, merged_tref, smp, xs, rows_eff, label):
        """smp: JokerSamples with nonlinear+linear columns; xs[i]: linear values in (data unit, per day^i) in
        design-matrix order.  Returns True if something non-trivial was checked."""
        names = c03.linear_names(prob)
        du = og.unit(prob.data_unit)
        nt = False
        t_data = prob.t
        span = max(t_data.max() - t_data.min(), 1.0)
        t_extra = t_data.min() + np.array(spec["t_off"]) * span
        t_all = np.concatenate([t_data, t_extra])
        for i, row in enumerate(rows_eff):
            if row["e"] > 0.99:
                continue
            x = np.asarray(xs[i], dtype=float)
            # ---- (a) RV curve of the reconstructed orbit == design matrix . x  (offset columns removed)
            M_all = prob.design(row, solver="independent", t=t_all, ids=np.full(len(t_all), -1))
            keep = [0, 1] + list(range(2 + prob.n_offsets, prob.n_linear))
            want = M_all[:, keep] @ x[keep]
            with ctx.sut("get_orbit(%d).radial_velocity" % i):
                orbit = smp.get_orbit(i)
                got = orbit.radial_velocity(Time(t_all, format="mjd", scale="tcb")).to_value(du)
            scale = np.abs(x[keep]) @ np.max(np.abs(M_all[:, keep]), axis=0) + 1e-300
            tol = 1e-8 * scale * (1 + 2 * math.pi * np.max(np.abs(t_all - prob.t_ref)) / row["P"] * 1e-7 / max(1e-3, 1 - row["e"]))
            if not (np.max(np.abs(got - want)) <= tol):
                j = int(np.argmax(np.abs(got - want)))
                raise Violation("%s: the orbit reconstructed from a sample row is not the sampler's RV model" % label,
                                row=row, x=x, t=t_all[j], orbit_rv=got[j], model_rv=want[j], tol=tol, t_ref=prob.t_ref,
                                samples_t_ref=repr(smp.t_ref))
            # ---- (b) unmarginalised likelihood on the offset-corrected data
            yprime = prob.y.copy()
            for r in range(1, prob.n_offsets + 1):
                k = int(np.where(prob.col_of_survey == r)[0][0])
                yprime[prob.ids == k] -= x[1 + r]
            # (uncertainties quoted in another, equivalent unit than the velocities: valid input)
            eu = og.unit([x for x in og.VEL_UNITS if og.unit(x) != du][(i + spec["rng_seed"]) % (len(og.VEL_UNITS) - 1)]) \
                if spec["rng_seed"] % 3 == 0 else du
            dprime = tj.RVData(t=Time(prob.t, format="mjd", scale="tcb"), rv=yprime * du, rv_err=(prob.err * du).to(eu),
                               t_ref=Time(prob.t_ref, format="mjd", scale="tcb"))
            with ctx.sut("ln_unmarginalized_likelihood"):
                lu = float(smp[i:i + 1].ln_unmarginalized_likelihood(dprime)[0]) if len(smp) > 1 else float(smp.ln_unmarginalized_likelihood(dprime)[0])
            M = prob.design(row, solver="independent")
            mean_full = M @ x
            var = prob.err ** 2 + row["s"] ** 2
            want_lu = ln_normal_sum(prob.y, mean_full, var)
            chi_scale = float(np.sum(np.abs(prob.y - mean_full) / var * scale)) * 1e-8 + 1e-9 * (abs(want_lu) + prob.n)
            if not (abs(lu - want_lu) <= chi_scale + 1e-9):
                raise Violation("%s: ln_unmarginalized_likelihood is not sum ln N(y | model, sigma^2 + s^2)" % label,
                                row=row, x=x, got=lu, want=want_lu, tol=chi_scale)
            # ---- (c) Bayes identity with the closed-form marginal on the left
            ev = og.evaluate(prob, row, want_posterior=True, solver="independent")
            free = ev["Lam"] > 0
            lnprior = ln_normal_sum(x[free], ev["mu"][free], ev["Lam"][free])
            A = ev["A"][np.ix_(free, free)]
            a = ev["a"][free]
            try:
                L = np.linalg.cholesky(A)
                z = np.linalg.solve(L, x[free] - a)
                lnpost = float(-0.5 * z @ z - np.log(np.diag(L)).sum() - 0.5 * free.sum() * math.log(2 * math.pi))
                resid = ev["ll"] - (lu + lnprior - lnpost)
                cond = og._scaled_cond(A)
                tol_id = og.tol_of(ev) + chi_scale + 1e-9 + 64 * og.EPS * cond * (abs(z @ z) + free.sum() + abs(lnpost))
                ctx.stat_max("max |Bayes identity residual| / tol", abs(resid) / tol_id)
                if not (abs(resid) <= tol_id):
                    raise Violation("%s: marginal likelihood, unmarginalised likelihood of the reconstructed orbit, linear "
                                    "prior and conditional posterior are not mutually consistent" % label,
                                    row=row, x=x, residual=resid, tol=tol_id, marginal=ev["ll"], unmarginalized=lu,
                                    ln_prior_x=lnprior, ln_posterior_x=lnpost)
            except np.linalg.LinAlgError:
                ctx.classes["identity skipped: A not numerically positive definite"] += 1
            if (spec["prior"]["poly_trend"] >= 2 or spec.get("t_ref") is not None or prob.n_offsets or row["s"] > 0) \
                    and x[0] != 0 and row["e"] > 0:
                nt = True
        return nt

    def body(spec):
        prob = og.Problem(spec)
        with ctx.sut("building data/prior/samples"):
            data = gens.build_data(spec)
            prior = gens.build_prior(spec["prior"])
            lib = gens.build_samples(spec)
        rows_eff = c01.effective_rows(lib, prob.data_unit)
        names = c03.linear_names(prob)
        units = c03.linear_units(prob)
        tref_time = Time(prob.t_ref, format="mjd", scale="tcb")
        # ---------------- (i) hand-built rows: the identity holds for every x, not only for drawn ones
        hb = tj.JokerSamples(poly_trend=prob.poly_trend, n_offsets=prob.n_offsets, t_ref=tref_time)
        for nm in ("P", "e", "omega", "M0", "s"):
            hb[nm] = lib[nm]
        xs = []
        for i, row in enumerate(rows_eff):
            ev = og.evaluate(prob, row) if row["e"] <= 0.99 else None
            sd = np.sqrt(np.where(ev["Lam"] > 0, ev["Lam"], 1.0)) if ev is not None else np.ones(prob.n_linear)
            mu = ev["mu"] if ev is not None else np.zeros(prob.n_linear)
            xs.append(mu + sd * np.asarray(spec["x"][i]))
        xs = np.array(xs)
        for j, (nm, un) in enumerate(zip(names, units)):
            hb[nm] = xs[:, j] * un
        nt1 = check_rows(spec, prob, data, prob.t_ref, hb, xs, rows_eff, "hand-built rows")
        # the same table after wrap_K(): every row must still denote the same curve (nothing cached may be stale)
        if np.any(xs[:, 0] < 0):
            with ctx.sut("wrap_K on a table whose orbits were already built"):
                hb.wrap_K()
            xs_w = xs.copy()
            xs_w[:, 0] = np.abs(xs_w[:, 0])
            # expected independently of the table: omega + pi exactly where K was negative (so the curve is the one before)
            rows_w = [dict(r, omega=(r["omega"] + math.pi) if xs[i, 0] < 0 else r["omega"]) for i, r in enumerate(rows_eff)]
            om_tab = hb["omega"].to_value(u.rad)
            for i, r in enumerate(rows_w):
                if not (abs(math.remainder(float(om_tab[i]) - r["omega"], 2 * math.pi)) <= 1e-9):
                    raise Violation("wrap_K did not move omega by pi (mod 2 pi) exactly where K was negative", row=rows_eff[i],
                                    K=float(xs[i, 0]), omega_after=float(om_tab[i]), omega_unit=str(hb["omega"].unit))
            check_rows(spec, prob, data, prob.t_ref, hb, xs_w, rows_w, "hand-built rows after wrap_K")
        # ---------------- (ii) rows returned by the sampler
        from vt.recgen import RecordingGenerator, RecordingPool
        rg = RecordingGenerator(np.random.PCG64(spec["rng_seed"]))
        rpool = RecordingPool(size=1)
        joker = tj.TheJoker(prior, rng=rg, pool=rpool)
        liblp = gens.build_samples(spec, extra={"ln_prior": -0.5 * np.arange(len(lib), dtype=float)})
        with ctx.sut("rejection_sample(return_logprobs=True)"):
            n_lin = [1, 1, 2, 3][(spec["rng_seed"] // 7) % 4]
            out = joker.rejection_sample(data, liblp, return_logprobs=True, in_memory=spec["path"] == "mem",
                                         randomize_prior_order=bool(spec["rng_seed"] % 2), n_batches=1 + spec["rng_seed"] % 3,
                                         n_linear_samples=n_lin)
        if out.t_ref is None or abs(out.t_ref.tcb.mjd - prob.t_ref) > 1e-9:
            raise Violation("returned samples do not carry the data's reference epoch", samples_t_ref=repr(out.t_ref),
                            data_t_ref=prob.t_ref)
        if int(out.poly_trend) != prob.poly_trend or int(out.n_offsets) != prob.n_offsets:
            raise Violation("returned samples lost poly_trend / n_offsets")
        nl_units = {"P": u.day, "e": u.one, "omega": u.rad, "M0": u.rad, "s": og.unit(prob.data_unit)}
        rows_out, xs_out = [], []
        finite = True
        for i in range(len(out)):
            vals = {nm: float(out[nm][i].to_value(un)) for nm, un in nl_units.items()}
            k = c03.match_row(rows_eff, vals)
            if k is None:
                raise Violation("returned nonlinear row is not a prior sample", row=vals)
            rows_out.append(rows_eff[k])
            x = np.array([float(out[nm][i].to_value(un)) for nm, un in zip(names, units)])
            if not np.all(np.isfinite(x)):
                finite = False
            xs_out.append(x)
        # the linear parameters of a returned row are the very vector x the sampler drew for it (the coefficients of its own
        # design-matrix columns K, v0, offsets, trend): only then is the reconstructed orbit the sampler's model
        mvn = rg.calls("multivariate_normal") if spec["path"] == "mem" else \
            [c for log in rpool.child_logs for c in log if c["name"] == "multivariate_normal"]
        if len(mvn) * n_lin == len(out):
            for i in range(len(out)):
                c_ = mvn[i // n_lin]
                drawn = np.atleast_2d(np.asarray(c_["out"], dtype=float))
                drawn = drawn[i % n_lin] if drawn.shape[0] == n_lin else drawn.reshape(-1)
                if drawn.shape == xs_out[i].shape and np.all(np.isfinite(drawn)) and \
                        not np.allclose(xs_out[i], drawn, rtol=1e-12, atol=1e-300):
                    raise Violation("the linear parameters reported for a returned row are not the coefficients (K, v0, offsets, "
                                    "trend, in the order of the sampler's design matrix) that the sampler drew for it",
                                    names=names, row_values=xs_out[i], drawn=drawn)
        else:
            ctx.classes["draws could not be paired with rows (not judged)"] += 1
        # reported ln_likelihood == closed-form marginal (C01 comparison; recorded defects are recognised there)
        c01.compare_rows(ctx, prob, rows_out, np.asarray(out["ln_likelihood"], dtype=float), spec)
        nt2 = False
        if finite:
            nt2 = check_rows(spec, prob, data, prob.t_ref, out, xs_out, rows_out, "sampler output")
        else:
            if "F2" not in prob.applicable_flags(rows_out[0], posterior=True):
                raise Violation("sampler returned non-finite linear parameters")
            ctx.known("F2")
        cls, _ = c01.spec_classes(spec, prob)
        ctx.note_case(spec, nt1 or nt2, cls)

    return body


def run(ctx):
    ctx.search("curves", cases(thorough=not ctx.quick), body_factory(ctx), quick=500, thorough=12000)
