from ref import *
def mksamples(N, seed=1, e=None):
    r = np.random.default_rng(seed); smp = tj.JokerSamples()
    smp['P'] = r.uniform(2, 500, N)*u.day; smp['e'] = r.uniform(0,0.9,N) if e is None else np.full(N, e); smp['omega']=r.uniform(0,6.28,N)*u.rad
    smp['M0']=r.uniform(0,6.28,N)*u.rad; smp['s']=np.zeros(N)*u.km/u.s; smp['ln_prior'] = r.normal(size=N)
    return smp
prior = tj.JokerPrior.default(P_min=2*u.day, P_max=500*u.day, sigma_K0=30*u.km/u.s, sigma_v=100*u.km/u.s)
r = np.random.default_rng(0); n=5; t = 56000 + np.sort(r.uniform(0, 300, n))
for big in [1e150, 1e160, 1e200]:
    data = tj.RVData(t=t, rv=big*r.normal(0,5,n)*u.km/u.s, rv_err=r.uniform(0.1,0.5,n)*u.km/u.s)
    smp = mksamples(50)
    ll = tj.TheJoker(prior).marginal_ln_likelihood(data, smp, in_memory=True)
    print(big, "ll finite?", np.isfinite(ll).all(), ll[:3])
    for inmem in [True, False]:
        try:
            out = tj.TheJoker(prior, rng=np.random.default_rng(1)).iterative_rejection_sample(data, smp, n_requested_samples=3, init_batch_size=10, in_memory=inmem)
            print("  inmem", inmem, "returned", type(out).__name__, (len(out) if hasattr(out,'tbl') else repr(out)[:80]))
        except Exception as ex: print("  inmem", inmem, "raised", type(ex).__name__, str(ex)[:80])
data = tj.RVData(t=t, rv=r.normal(0,5,n)*u.km/u.s, rv_err=r.uniform(0.1,0.5,n)*u.km/u.s)
for e in [0.99, 0.995, 0.999, 0.9999, 0.999999, 1-1e-12]:
    ll = tj.TheJoker(prior).marginal_ln_likelihood(data, mksamples(200, e=e), in_memory=True); print("e", e, "finite", np.isfinite(ll).all(), ll.min(), ll.max())
