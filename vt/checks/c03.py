"""C03 - linear parameters are drawn from the exact conditional posterior."""
import math
import os

import numpy as np
from hypothesis import strategies as st

from vt import gens
from vt import oracle_gauss as og
from vt.checks import c01
from vt.recgen import RecordingGenerator, RecordingPool
from vt.runner import Violation

RULE = ("(exact) problems of C01 pushed through rejection_sample with a RecordingGenerator as rng (in memory) or a "
        "recording pool that wraps the per-batch child generators (cache / file path): for every accepted row the "
        "(mean, cov, size) handed to multivariate_normal must equal the closed-form (a, A, n_linear_samples) - "
        "entry-wise, relative to sqrt(A_ii A_jj), with the round-off model of DESIGN 4.2 - and the returned linear "
        "columns must be exactly those draws in design-matrix column order and units next to an unchanged copy of the "
        "nonlinear row. (statistical) no interposition: >=4000 draws per row, whitened with the closed-form (a, A), "
        "tested against N(0, I) (KS of Mahalanobis distances, mean, covariance, lag-1 independence; failure threshold "
        "p<1e-9). Non-trivial: informative data (posterior variance < 0.5 prior variance for some parameter) and one "
        "of the C01 non-trivial classes; distinct by fingerprint."
        ' Also: the generators handed to the batches of a call must start from pairwise distinct states; inversion failures of the kernel at kappa > 1e12 are not judged.')
SHARDS = {"quick": 4, "thorough": 16}
BUDGET = {"quick": 75, "thorough": 800}


def linear_names(prob):
    return (["K", "v0"] + ["dv0_%d" % (i + 1) for i in range(prob.n_offsets)]
            + ["v%d" % i for i in range(1, prob.poly_trend)])


def linear_units(prob):
    import astropy.units as u

    du = og.unit(prob.data_unit)
    return ([du, du] + [du] * prob.n_offsets + [du / u.day ** i for i in range(1, prob.poly_trend)])


def match_row(rows_eff, vals):
    for i, r in enumerate(rows_eff):
        if all(r[k] == vals[k] for k in ("P", "e", "omega", "M0", "s")):
            return i
    return None


def run_rejection(ctx, spec, prob, data, prior, smp, seed_override=None):
    import thejoker as tj

    path = spec.get("path", "mem")
    rg = RecordingGenerator(np.random.PCG64(spec["rng_seed"]))
    pool = RecordingPool(size=spec.get("pool_size", 1))
    joker = tj.TheJoker(prior, rng=rg, pool=pool)
    c01.prehistory(ctx, spec, joker, smp)
    kw = dict(n_linear_samples=spec["n_linear"], max_posterior_samples=spec.get("max_post"))
    if spec.get("iterative"):
        # the iterative sampler draws the linear parameters through the same step
        with ctx.sut("iterative_rejection_sample[%s]" % path):
            kw2 = dict(n_linear_samples=spec["n_linear"], n_requested_samples=len(smp), init_batch_size=len(smp))
            if path == "mem":
                out = joker.iterative_rejection_sample(data, smp, in_memory=True, **kw2)
            else:
                out = joker.iterative_rejection_sample(data, smp, n_batches=spec.get("n_batches"), **kw2)
        calls = rg.calls("multivariate_normal") if path == "mem" else \
            [c for log in pool.child_logs for c in log if c["name"] == "multivariate_normal"]
        return out, calls, rg, pool
    with ctx.sut("rejection_sample[%s]" % path):
        if path == "mem":
            out = joker.rejection_sample(data, smp, in_memory=True, **kw)
        elif path == "cache":
            out = joker.rejection_sample(data, smp, n_batches=spec.get("n_batches"), **kw)
        else:
            fn = os.path.join(ctx.workdir, "c03lib.hdf5")
            smp.write(fn, overwrite=True)
            out = joker.rejection_sample(data, fn, n_batches=spec.get("n_batches"), **kw)
    if path == "mem":
        calls = rg.calls("multivariate_normal")
    else:
        calls = [c for log in pool.child_logs for c in log if c["name"] == "multivariate_normal"]
    return out, calls, rg, pool


def body_factory(ctx):
    import astropy.units as u

    def body(spec):
        prob = og.Problem(spec)
        with ctx.sut("building data/prior/samples"):
            data = gens.build_data(spec)
            prior = gens.build_prior(spec["prior"])
            smp = gens.build_samples(spec)
        rows_eff = c01.effective_rows(smp, prob.data_unit)
        import thejoker as tj
        c01.prehistory(ctx, spec, tj.TheJoker(prior), smp)   # (before anything else touches this prior object)
        with ctx.sut("marginal_ln_likelihood"):
            probe = np.asarray(tj.TheJoker(prior).marginal_ln_likelihood(data, smp, in_memory=True), dtype=float)
        if not np.all(np.isfinite(probe)):
            kap = max(og.evaluate(prob, r, fl)["kappa"] for r in rows_eff for fl in og.subsets(prob.applicable_flags(r)))
            if kap > 1e14:
                ctx.classes["numerically singular configuration (kappa>1e14): skipped"] += 1
                return
            raise Violation("marginal ln-likelihood is not finite for a finite valid input", values=probe[:8], kappa=kap)
        try:
            out, calls, rg, pool = run_rejection(ctx, spec, prob, data, prior, smp)
        except Violation as v_:
            # the kernel inverts the precision matrix of the linear parameters: for configurations at the edge of what
            # float64 can factor (the likelihood probe above was still finite) that inversion may fail outright
            kap = max(og.evaluate(prob, r, fl)["kappa"] for r in rows_eff for fl in og.subsets(prob.applicable_flags(r)))
            if "LinAlgError" in v_.msg and kap > 1e12:
                ctx.classes["numerically singular configuration (kappa>1e12, inversion failed): skipped"] += 1
                return
            raise
        # independent draws: no two tasks (of one call or of successive calls) may start from the same generator state
        states = [st_ for _, st_ in pool.child_states]
        if len(set(states)) != len(states):
            raise Violation("two batches were handed random generators in the same state: their linear-parameter draws are "
                            "copies of each other in standardised form, not independent draws", n_tasks=len(states),
                            distinct=len(set(states)))
        n_lin = spec["n_linear"]
        names = linear_names(prob)
        units = linear_units(prob)
        want_cols = ["P", "e", "omega", "M0", "s"] + names
        if list(out.par_names) != want_cols:
            raise Violation("returned columns are not (nonlinear, K, v0, offsets, trend) in design-matrix order",
                            got=list(out.par_names), want=want_cols)
        if len(out) != len(calls) * n_lin:
            raise Violation("number of returned rows != accepted rows x n_linear_samples",
                            rows=len(out), mvn_calls=len(calls), n_linear=n_lin)
        if len(calls) == 0:
            raise Violation("no sample survived (the best sample must always survive)")
        du = og.unit(prob.data_unit)
        nl_units = {"P": u.day, "e": u.one, "omega": u.rad, "M0": u.rad, "s": du}
        informative = False
        any_flags = set()
        for k, call in enumerate(calls):
            block = out[k * n_lin:(k + 1) * n_lin]
            size = call["kwargs"].get("size", call["args"][0] if call["args"] else None)
            if size != n_lin:
                raise Violation("multivariate_normal asked for %r draws, n_linear_samples=%d" % (size, n_lin))
            vals = {nm: block[nm].to_value(nl_units[nm]) for nm in nl_units}
            for nm, v in vals.items():
                if not np.all(v == v[0]):
                    raise Violation("nonlinear parameters differ between the draws of one accepted sample", name=nm)
            i = match_row(rows_eff, {nm: float(v[0]) for nm, v in vals.items()})
            if i is None:
                raise Violation("returned nonlinear row is not a copy of any prior sample",
                                row={nm: float(v[0]) for nm, v in vals.items()})
            row = rows_eff[i]
            draws = np.atleast_2d(call["out"])
            for j, nm in enumerate(names):
                col = block[nm]
                if not col.unit.is_equivalent(units[j]):
                    raise Violation("column %s has unit %s, expected %s" % (nm, col.unit, units[j]))
                if not np.array_equal(col.to_value(units[j]), draws[:, j], equal_nan=True):
                    raise Violation("column %s does not hold the draws of design-matrix column %d" % (nm, j),
                                    got=col.to_value(units[j])[:4], draws=draws[:4, j])
            if row["e"] > 0.99:
                continue
            if not (np.all(np.isfinite(call["mean"])) and np.all(np.isfinite(call["cov"]))):
                # defect F2 pins K with Lambda_K = 0: the kernel's precision matrix then holds 1/0 = inf and the
                # covariance handed to the generator is not finite.  Only that configuration may do this.
                if "F2" in prob.applicable_flags(row, posterior=True):
                    ctx.known("F2")
                    any_flags.add("F2")
                    continue
                raise Violation("mean/covariance of the linear-parameter draw are not finite", row=row,
                                mean_code=call["mean"], cov_code=call["cov"])
            # (a, A) against the closed form / recorded defect signatures
            ev = og.evaluate(prob, row, want_posterior=True)
            best = ((), og.posterior_ratio(ev, call["mean"], call["cov"]), ev)
            if best[1] > 1e-2:
                for flags in og.subsets(prob.applicable_flags(row, posterior=True))[1:]:
                    ev2 = og.evaluate(prob, row, flags, want_posterior=True)
                    r2 = og.posterior_ratio(ev2, call["mean"], call["cov"])
                    if r2 < best[1]:
                        best = (flags, r2, ev2)
            if best[1] > 1.0:
                raise Violation("mean/covariance of the linear-parameter draw differ from the conditional posterior",
                                row=row, mean_code=call["mean"], mean_closed_form=ev["a"], cov_code=call["cov"],
                                cov_closed_form=ev["A"], ratio=best[1], mu=ev["mu"], Lambda=ev["Lam"],
                                tried=[list(f) for f in og.subsets(prob.applicable_flags(row, posterior=True))[1:]])
            ctx.stat_max("max posterior |delta|/tol of accepted values", best[1])
            for f in best[0]:
                ctx.known(f)
                any_flags.add(f)
            Lam = ev["Lam"]
            with np.errstate(divide="ignore", invalid="ignore"):
                if np.any(np.diag(ev["A"]) < 0.5 * Lam):
                    informative = True
        cls, means = c01.spec_classes(spec, prob)
        pr = spec["prior"]
        c01_nt = (any(r["s"] > 0 for r in rows_eff) or prob.n_offsets >= 1 or pr["poly_trend"] >= 2 or means
                  or pr["K"]["kind"] == "normal" or pr["P"]["unit"] != "d" or "mixed_data_units" in cls)
        cls += ["n_linear=%s" % ("1" if n_lin == 1 else ("2-8" if n_lin <= 8 else ">8")),
                "informative" if informative else "weak", "accepted=%s" % ("1" if len(calls) == 1 else ">1")]
        ctx.note_case(spec, informative and c01_nt, cls)

    return body


# ----------------------------------------------------------------------------- statistical, end to end
def stat_body_factory(ctx):
    import scipy.stats as ss

    import thejoker as tj

    def body(spec):
        prob = og.Problem(spec)
        data = gens.build_data(spec)
        prior = gens.build_prior(spec["prior"])
        smp = gens.build_samples(spec)
        rows_eff = c01.effective_rows(smp, prob.data_unit)
        n_lin = spec["n_linear"]
        joker = tj.TheJoker(prior, rng=np.random.default_rng(spec["rng_seed"]))
        with ctx.sut("rejection_sample"):
            out = joker.rejection_sample(data, smp, n_linear_samples=n_lin, in_memory=spec["path"] == "mem")
        names = linear_names(prob)
        units = linear_units(prob)
        import astropy.units as u
        du = og.unit(prob.data_unit)
        nl_units = {"P": u.day, "e": u.one, "omega": u.rad, "M0": u.rad, "s": du}
        nl_vals = {nm: out[nm].to_value(un) for nm, un in nl_units.items()}
        nblocks = len(out) // n_lin
        if len(out) != nblocks * n_lin or nblocks == 0:
            raise Violation("row count is not a positive multiple of n_linear_samples", rows=len(out))
        tested = 0
        for b in range(nblocks):
            sl = slice(b * n_lin, (b + 1) * n_lin)
            i = match_row(rows_eff, {nm: float(v[sl][0]) for nm, v in nl_vals.items()})
            if i is None:
                raise Violation("returned nonlinear row is not a prior sample")
            row = rows_eff[i]
            if row["e"] > 0.99:
                continue
            X = np.stack([out[nm][sl].to_value(un) for nm, un in zip(names, units)], axis=1)
            results = {}
            skipped = False
            for flags in og.subsets(prob.applicable_flags(row, posterior=True)):
                ev = og.evaluate(prob, row, flags, want_posterior=True)
                free = ev["Lam"] > 0
                if not free.any():
                    continue
                # pinned parameters (Lambda=0) must be reproduced exactly
                A = ev["A"][np.ix_(free, free)]
                a = ev["a"][free]
                if og._scaled_cond(A) > 1e6:
                    # whitening would amplify the round-off of numpy's SVD-based sampler: exact part covers these
                    ctx.classes["stat:skipped ill-conditioned A"] += 1
                    skipped = True
                    continue
                try:
                    L = np.linalg.cholesky(A)
                except np.linalg.LinAlgError:
                    continue
                W = np.linalg.solve(L, (X[:, free] - a).T).T  # whitened residuals ~ N(0, I)
                kdim = W.shape[1]
                n = W.shape[0]
                d2 = np.sum(W ** 2, axis=1)
                p_ks = ss.kstest(d2, ss.chi2(kdim).cdf).pvalue
                m = W.mean(axis=0)
                p_mean = ss.chi2(kdim).sf(n * float(m @ m))
                S = (W.T @ W) / n
                T = 0.0
                for ii in range(kdim):
                    for jj in range(ii, kdim):
                        T += n * (S[ii, jj] - (1.0 if ii == jj else 0.0)) ** 2 / (2.0 if ii == jj else 1.0)
                p_cov = ss.chi2(kdim * (kdim + 1) // 2).sf(T)
                r1 = np.sum(W[1:] * W[:-1], axis=0) / (n - 1)
                p_ind = ss.chi2(kdim).sf((n - 1) * float(r1 @ r1))
                pmin = min(p_ks, p_mean, p_cov, p_ind)
                results[flags] = (pmin, dict(ks=p_ks, mean=p_mean, cov=p_cov, lag1=p_ind))
                if flags == () and pmin > 1e-4:
                    break
            best = max(results.items(), key=lambda kv: kv[1][0]) if results else None
            if best is None:
                continue
            if best[1][0] < 1e-9 and skipped:
                ctx.classes["stat:inconclusive (a candidate explanation was too ill-conditioned to whiten)"] += 1
                continue
            if best[1][0] < 1e-9:
                raise Violation("linear-parameter draws are not distributed as N(a, A)", row=row, pvalues=results)
            for f in best[0]:
                ctx.known(f)
            ctx.stat_max("min accepted p-value (as -log10)", -math.log10(max(best[1][0], 1e-300)))
            tested += 1
        cls, _ = c01.spec_classes(spec, prob)
        ctx.note_case(spec, tested > 0, ["stat:" + c for c in cls[:4]] + ["stat:blocks=%d" % min(tested, 3)])

    return body


@st.composite
def cases(draw, thorough=False):
    spec = draw(gens.problems(max_surveys=4 if thorough else 3, max_epochs=30 if thorough else 8,
                              max_poly=4 if thorough else 3, n_rows=(3, 8), allow_f4=True, t_ref="allow_false"))
    spec["path"] = draw(st.sampled_from(["mem", "mem", "cache", "file"]))
    spec["n_linear"] = draw(st.sampled_from([1, 1, 2, 3, 5, 16, 64]))
    spec["rng_seed"] = draw(st.integers(0, 2**32 - 1))
    spec["max_post"] = draw(st.sampled_from([None, None, 1, 2, 100]))
    spec["iterative"] = draw(st.integers(0, 5)) == 0
    spec["prehistory"] = draw(st.sampled_from([None, None, None, "errors", "unit"]))
    if spec["path"] != "mem":
        spec["n_batches"] = draw(st.one_of(st.none(), st.integers(1, len(spec["rows"]) + 1)))
        spec["pool_size"] = draw(st.integers(1, 4))
    return spec


@st.composite
def stat_cases(draw):
    spec = draw(gens.problems(max_surveys=3, max_epochs=10, max_poly=3, n_rows=(1, 3)))
    spec["path"] = draw(st.sampled_from(["mem", "cache"]))
    spec["n_linear"] = draw(st.sampled_from([4000, 8000]))
    spec["rng_seed"] = draw(st.integers(0, 2**32 - 1))
    return spec


def run(ctx):
    ctx.search("exact", cases(thorough=not ctx.quick), body_factory(ctx), quick=1200, thorough=30000)
    ctx.search("statistical", stat_cases(), stat_body_factory(ctx), quick=120, thorough=3000, shrink=False)
