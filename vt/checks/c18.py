"""C18 - only priors and data that satisfy the sampler's assumptions are accepted."""
import numpy as np
from hypothesis import strategies as st

from vt.runner import Violation

RULE = ("A grammar of prior specifications: valid ones (poly_trend 1-4, 0-3 offsets, parameters passed as dict / list / "
        "taken from the model, default or hand-built) and single-fault corruptions {omit parameter p; no unit on p; "
        "unit of the wrong dimension on p (incl. v_i with the wrong power of time); linear parameter or offset with a "
        "non-Normal law in {Uniform, StudentT, HalfNormal, Lognormal, TruncatedNormal, MvNormal, Deterministic, "
        "constant, scaled Normal}; misnamed offset; non-numeric poly_trend}. Data arguments: single RVData / list / "
        "tuple / dict / generator of k sources against n_offsets, non-RVData element, covariance source (alone or in a "
        "list), non-iterable. Oracle: a corrupted specification must raise (any exception type) - priors at construction, data at "
        "the first sampler call; a valid one must be accepted, list its parameters as nonlinear, linear, offsets and "
        "yield finite likelihoods. Every corrupted case is non-trivial (each exercises one validation branch); the "
        "class histogram shows the (fault kind x parameter) cells covered."
        " Also: dict labels that are prefixes of each other / numeric strings / case variants; search 'default_factory': arguments of JokerPrior.default of the wrong physical type or count must be refused.")
SHARDS = {"quick": 4, "thorough": 16}
BUDGET = {"quick": 70, "thorough": 600}

NONNORMAL = ["uniform", "student", "halfnormal", "lognormal", "trunc", "mvn", "det", "const", "scaled"]


@st.composite
def prior_cases(draw):
    poly = draw(st.integers(1, 4))
    noff = draw(st.integers(0, 3))
    names_nl = ["P", "e", "omega", "M0", "s"]
    names_lin = ["K"] + ["v%d" % i for i in range(poly)]
    names_off = ["dv0_%d" % (i + 1) for i in range(noff)]
    fault = draw(st.sampled_from(["none", "none", "omit", "nounit", "badunit", "nonnormal", "misname_offset", "poly_trend",
                                  "wrong_time_power"]))
    case = {"poly": poly, "noff": noff, "fault": fault, "how": draw(st.sampled_from(["dict", "list", "model"])),
            "Kkind": draw(st.sampled_from(["normal", "fcm"]))}
    if fault in ("omit", "nounit", "badunit"):
        pool = names_nl + names_lin + (names_off if fault != "omit" else [])
        case["target"] = draw(st.sampled_from(pool))
        case["unit_choice"] = draw(st.integers(0, 4))
    elif fault == "nonnormal":
        case["target"] = draw(st.sampled_from(names_lin + names_off))
        case["law"] = draw(st.sampled_from(NONNORMAL))
    elif fault == "misname_offset":
        case["noff"] = max(1, noff)
        case["badname"] = draw(st.sampled_from(["dv0_9", "dv0", "offset1", "dv1_1"]))
    elif fault == "poly_trend":
        case["poly_arg"] = draw(st.sampled_from(["two", None, "1.5x"]))
    elif fault == "wrong_time_power":
        case["poly"] = max(2, poly)
        case["target"] = "v%d" % draw(st.integers(1, case["poly"] - 1))
    if case["how"] == "model" and fault == "omit":
        case["how"] = "dict"
    return case


def build_prior(case):
    import astropy.units as u
    import pymc as pm
    import pytensor.tensor as pt

    import thejoker as tj
    import thejoker.units as xu
    from thejoker.distributions import FixedCompanionMass

    poly, noff, fault = case["poly"], case["noff"], case["fault"]
    tgt = case.get("target")
    vel = u.km / u.s

    def unit_for(name, unit):
        if name == tgt and fault == "badunit":
            # a unit that cannot be converted to the canonical one (incl. the angle <-> dimensionless confusions)
            if name == "P":
                menu = [u.kg, vel, 1 / u.day, u.rad]
            elif name == "e":
                menu = [u.m, u.rad, u.deg, vel]
            elif name in ("omega", "M0"):
                menu = [u.one, u.day, vel]
            elif name[0] == "v" and name != "v0":
                i = int(name[1:])
                menu = [vel, vel / u.day ** (i + 1), u.day, u.one]
            else:
                menu = [u.day, u.kg, vel / u.day, u.one, u.rad]
            return menu[case.get("unit_choice", 0) % len(menu)]
        if name == tgt and fault == "wrong_time_power":
            return vel  # v_i declared as a plain velocity
        return unit

    def wrap(name, var, unit):
        if name == tgt and fault == "nounit":
            return var
        return xu.with_unit(var, unit_for(name, unit))

    def lin(name, sigma):
        if name == tgt and fault == "nonnormal":
            law = case["law"]
            if law == "uniform":
                return pm.Uniform(name, -1, 1)
            if law == "student":
                return pm.StudentT(name, nu=3, mu=0, sigma=sigma)
            if law == "halfnormal":
                return pm.HalfNormal(name, sigma)
            if law == "lognormal":
                return pm.Lognormal(name, 0, 1.0)
            if law == "trunc":
                return pm.TruncatedNormal(name, mu=0, sigma=sigma, lower=-2, upper=2)
            if law == "mvn":
                return pm.MvNormal(name, mu=np.zeros(1), cov=np.eye(1))
            if law == "det":
                return pm.Deterministic(name, pt.constant(1.0))
            if law == "const":
                return pt.constant(1.0, name=name)
            if law == "scaled":
                return 2.0 * pm.Normal(name + "_raw", 0, sigma)
        return pm.Normal(name, 0.0, sigma)

    with pm.Model() as model:
        pars = {}
        P = wrap("P", pm.Uniform("P", 2, 100), u.day)
        e = wrap("e", pm.Beta("e", 1, 3), u.one)
        pars["P"], pars["e"] = P, e
        pars["omega"] = wrap("omega", pm.Uniform("omega", 0, 6.28), u.rad)
        pars["M0"] = wrap("M0", pm.Uniform("M0", 0, 6.28), u.rad)
        pars["s"] = wrap("s", pm.Lognormal("s", 0, 1), vel)
        if case["Kkind"] == "fcm" and not (tgt == "K" and fault == "nonnormal"):
            pars["K"] = wrap("K", FixedCompanionMass("K", P=P, e=e, sigma_K0=30 * vel, P0=1 * u.yr), vel)
        else:
            pars["K"] = wrap("K", lin("K", 10.0), vel)
        for i in range(poly):
            pars["v%d" % i] = wrap("v%d" % i, lin("v%d" % i, 10.0 ** (1 - 2 * i)), vel / u.day ** i)
        offs = []
        for i in range(noff):
            name = "dv0_%d" % (i + 1)
            vname = case["badname"] if (fault == "misname_offset" and i == 0) else name
            if vname != name:
                offs.append(xu.with_unit(pm.Normal(vname, 0, 5.0), vel))
            else:
                offs.append(wrap(name, lin(name, 5.0), vel))
        if fault == "omit":
            pars.pop(tgt)
        poly_arg = case.get("poly_arg", poly) if fault == "poly_trend" else poly
        if case["how"] == "dict":
            arg = dict(pars)
        elif case["how"] == "list":
            arg = list(pars.values())
        else:
            arg = None
        if arg is None:
            prior = tj.JokerPrior(pars=None, poly_trend=poly_arg, v0_offsets=offs or None, model=model)
        else:
            prior = tj.JokerPrior(pars=arg, poly_trend=poly_arg, v0_offsets=offs or None, model=model)
    try:
        prior._vt_offsets_arg = offs or None       # (harness bookkeeping: the very list object that was passed in)
    except Exception:
        pass
    return prior


def mk_data(n, seed, cov=False):
    import astropy.units as u

    import thejoker as tj

    r = np.random.default_rng(seed)
    t = 56000 + np.sort(r.uniform(0, 300, n))
    rv = r.normal(0, 5, n) * u.km / u.s
    err = r.uniform(0.1, 0.5, n)
    if cov:
        return tj.RVData(t=t, rv=rv, rv_err=np.diag(err ** 2) * (u.km / u.s) ** 2)
    return tj.RVData(t=t, rv=rv, rv_err=err * u.km / u.s)


def probe_samples(poly, noff):
    import astropy.units as u

    import thejoker as tj

    s = tj.JokerSamples(poly_trend=poly, n_offsets=noff)
    s["P"] = [10.0, 33.3] * u.day
    s["e"] = [0.1, 0.4]
    s["omega"] = [1.0, 2.0] * u.rad
    s["M0"] = [0.3, 4.0] * u.rad
    s["s"] = [0.0, 0.1] * u.km / u.s
    return s


def prior_body_factory(ctx):
    import thejoker as tj

    def body(case):
        fault = case["fault"]
        exc = None
        prior = None
        try:
            prior = build_prior(case)
        except Exception as e:  # any exception type counts as "raises"
            exc = e
        cell = "%s:%s" % (fault, case.get("target", case.get("law", "")))
        if fault == "badunit":
            cell += ":choice%d" % (case.get("unit_choice", 0) % 5)
        if fault == "nonnormal":
            cell = "nonnormal:%s:%s" % (case["law"], "offset" if case["target"].startswith("dv0") else case["target"][:1])
        if fault == "none":
            if exc is not None:
                raise Violation("a valid prior specification was rejected: %s: %s" % (type(exc).__name__, str(exc)[:200]))
            want = ["P", "e", "omega", "M0", "s", "K"] + ["v%d" % i for i in range(case["poly"])] + \
                ["dv0_%d" % (i + 1) for i in range(case["noff"])]
            if list(prior.par_names) != want:
                raise Violation("par_names are not (nonlinear, linear, offsets)", got=list(prior.par_names), want=want)
            # what was validated at construction is what the prior keeps: changing the caller's own offset list afterwards
            # must not change the accepted prior
            offs_arg = getattr(prior, "_vt_offsets_arg", None)
            if isinstance(offs_arg, list):
                offs_arg.append("something appended by the caller later")
                if prior.n_offsets != case["noff"] or list(prior.par_names) != want:
                    raise Violation("an accepted prior changes when the caller's v0_offsets list is modified afterwards (its "
                                    "content was only validated at construction)", n_offsets=prior.n_offsets, par_names=list(prior.par_names))
                offs_arg.pop()
            data = [mk_data(4 + k, 10 + k) for k in range(case["noff"] + 1)]
            with ctx.sut("marginal_ln_likelihood with an accepted prior"):
                ll = tj.TheJoker(prior).marginal_ln_likelihood(data if case["noff"] else data[0],
                                                                probe_samples(case["poly"], case["noff"]), in_memory=True)
            if len(ll) != 2 or not np.all(np.isfinite(ll)):
                raise Violation("accepted prior does not yield finite likelihoods", ll=ll)
            ctx.note_case(case, case["poly"] > 1 or case["noff"] > 0, ["valid:how=" + case["how"], "valid:K=" + case["Kkind"]])
            return
        if exc is None:
            raise Violation("JokerPrior construction accepted a specification that violates the sampler's assumptions", fault=fault,
                            target=case.get("target"), law=case.get("law"), par_names=list(prior.par_names))
        ctx.note_case(case, True, [cell])

    return body


# ----------------------------------------------------------------------------- the JokerPrior.default() factory
@st.composite
def default_cases(draw):
    poly = draw(st.integers(1, 3))
    fault = draw(st.sampled_from(["none", "none", "sigma_v", "sigma_v", "sigma_K0", "P_min", "P_max", "s", "sigma_v_count"]))
    return {"poly": poly, "fault": fault, "choice": draw(st.integers(0, 5)), "which": draw(st.integers(0, poly - 1)),
            "as": draw(st.sampled_from(["list", "dict"])), "vel": draw(st.sampled_from(["km/s", "m/s"])),
            "noff": draw(st.integers(0, 2))}


def default_body_factory(ctx):
    import astropy.units as u
    import pymc as pm

    import thejoker as tj
    import thejoker.units as xu

    def body(case):
        poly, fault = case["poly"], case["fault"]
        vel = u.Unit(case["vel"])
        sig = [(10.0 ** (1 - 2 * i)) * vel / u.day ** i for i in range(poly)]
        kw = dict(P_min=2 * u.day, P_max=1.5 * u.year, sigma_K0=25 * vel, poly_trend=poly)
        wrong_dim = [u.km, u.day, u.kg, u.one, u.rad, 1 / u.day]
        w = wrong_dim[case["choice"] % len(wrong_dim)]
        if fault == "sigma_v":
            i = case["which"]
            # a width of the wrong physical type for v_i: not a velocity per day^i
            menu = [u.km, u.day, u.one, vel / u.day ** (i + 1), vel * u.day, (vel / u.day ** (i - 1)) if i >= 1 else u.km / u.s ** 2]
            sig[i] = 3.0 * menu[case["choice"] % len(menu)]
        elif fault == "sigma_K0":
            kw["sigma_K0"] = 25 * w
        elif fault == "P_min":
            kw["P_min"] = 2 * [u.km, vel, u.one, u.rad, u.kg, 1 / u.day][case["choice"] % 6]
        elif fault == "P_max":
            kw["P_max"] = 400 * [u.km, vel, u.one, u.rad, u.kg, 1 / u.day][case["choice"] % 6]
        elif fault == "s":
            # (also with the value 0: a quantity of the wrong physical type stays wrong when its value is zero)
            kw["s"] = [0.5, 0.0][case["which"] % 2] * [u.km, u.day, u.one, u.rad, vel / u.day, u.kg][case["choice"] % 6]
        if fault == "sigma_v_count":
            # one width too few (poly_trend >= 2) or one too many
            sig = sig[:-1] if (poly >= 2 and case["choice"] % 2 == 0) else sig + [1e-5 * vel / u.day ** poly]
        if case["as"] == "dict" and fault != "sigma_v_count":
            kw["sigma_v"] = {"v%d" % i: sg for i, sg in enumerate(sig)}
        else:
            kw["sigma_v"] = sig[0] if (poly == 1 and len(sig) == 1 and case["choice"] % 3) else sig
        exc, prior = None, None
        try:
            with pm.Model() as model:
                offs = [xu.with_unit(pm.Normal("dv0_%d" % (i + 1), 0, 5.0), vel) for i in range(case["noff"])]
                prior = tj.JokerPrior.default(v0_offsets=offs or None, model=model, **kw)
        except Exception as e:
            exc = e
        invalid = fault not in ("none",)
        if not invalid:
            if exc is not None:
                raise Violation("JokerPrior.default rejected valid arguments: %s: %s" % (type(exc).__name__, str(exc)[:200]), kw=repr(kw)[:300])
            units = prior.par_units
            for i in range(poly):
                if not units["v%d" % i].is_equivalent(vel / u.day ** i):
                    raise Violation("default prior declares v%d in %s" % (i, units["v%d" % i]))
            ctx.note_case(case, poly > 1, ["default:valid", "default:sigma_v as " + case["as"]])
            return
        if exc is None:
            raise Violation("JokerPrior.default accepted an argument of the wrong physical type (it would be silently re-interpreted)",
                            fault=fault, kw=repr(kw)[:400], declared_units={k: str(v) for k, v in prior.par_units.items()})
        ctx.note_case(case, True, ["default:" + fault])

    return body


# ----------------------------------------------------------------------------- data arguments
DATA_KINDS = ["single", "list", "tuple", "dict", "generator", "list_with_str", "list_with_cov", "single_cov", "int", "none",
              "list_dup_obj", "dict_int_keys"]


@st.composite
def data_cases(draw):
    return {"noff": draw(st.integers(0, 3)), "k": draw(st.integers(1, 4)), "kind": draw(st.sampled_from(DATA_KINDS)),
            "entry": draw(st.sampled_from(["marginal_ln_likelihood", "rejection_sample", "iterative_rejection_sample"])),
            "seed": draw(st.integers(0, 1000)),
            # labels of dict sources: plain, one label a prefix of the next, numeric strings, mixed case
            "keys": draw(st.sampled_from(["plain", "prefix", "prefix_rev", "numeric", "case"]))}


KEYSETS = {"plain": ["s0", "s1", "s2", "s3"], "prefix": ["harps", "harps-n", "harps-n2", "harps-n2b"],
           "prefix_rev": ["harps-n2b", "harps-n2", "harps-n", "harps"], "numeric": ["1", "10", "100", "1000"],
           "case": ["keck", "Keck", "KECK", "keck "]}

_PRIORS = {}


def offsets_prior(noff):
    if noff not in _PRIORS:
        _PRIORS[noff] = build_prior({"poly": 1, "noff": noff, "fault": "none", "how": "dict", "Kkind": "normal"})
    return _PRIORS[noff]


def data_body_factory(ctx):
    import thejoker as tj

    def body(case):
        noff, k, kind = case["noff"], case["k"], case["kind"]
        ds = [mk_data(3 + i, case["seed"] + i) for i in range(k)]
        valid = None
        if kind == "single":
            arg, valid = ds[0], noff == 0
        elif kind == "list":
            arg, valid = list(ds), k - 1 == noff
        elif kind == "tuple":
            arg, valid = tuple(ds), k - 1 == noff
        elif kind == "dict":
            arg, valid = {KEYSETS[case.get("keys", "plain")][i]: d for i, d in enumerate(ds)}, k - 1 == noff
        elif kind == "dict_int_keys":
            arg, valid = {7 * i + 1: d for i, d in enumerate(ds)}, k - 1 == noff
        elif kind == "generator":
            arg, valid = (d for d in ds), k - 1 == noff
        elif kind == "list_dup_obj":
            arg, valid = [ds[0]] * k, k - 1 == noff
        elif kind == "list_with_str":
            arg, valid = list(ds) + ["not data"], False
        elif kind == "list_with_cov":
            arg, valid = list(ds) + [mk_data(3, 99, cov=True)], False
        elif kind == "single_cov":
            arg, valid = mk_data(4, 98, cov=True), False
        elif kind == "int":
            arg, valid = 3, False
        else:
            arg, valid = None, False
        prior = offsets_prior(noff)
        joker = tj.TheJoker(prior, rng=np.random.default_rng(case["seed"]))
        smp = probe_samples(1, noff)
        exc = None
        try:
            if case["entry"] == "marginal_ln_likelihood":
                res = joker.marginal_ln_likelihood(arg, smp, in_memory=True)
            elif case["entry"] == "rejection_sample":
                res = joker.rejection_sample(arg, smp, in_memory=True)
            else:
                res = joker.iterative_rejection_sample(arg, smp, n_requested_samples=1, init_batch_size=2, in_memory=True)
        except Exception as e:
            exc = e
        cell = "data:%s:%s" % (kind if kind != "dict" else "dict[%s labels]" % case.get("keys", "plain"), "valid" if valid else "invalid")
        if valid and exc is not None:
            raise Violation("valid data argument (%s of %d sources, %d offsets) was rejected: %s: %s"
                            % (kind, k, noff, type(exc).__name__, str(exc)[:200]))
        if not valid and exc is None:
            raise Violation("data argument that does not match the prior was accepted", kind=kind, n_sources=k,
                            n_offsets=noff, entry=case["entry"])
        if valid and kind in ("list", "dict") and exc is None:
            # the same container object, changed in place, handed to the same sampler again: it has to be re-validated
            mutated = None
            if kind == "list":
                arg.append("not data" if case["seed"] % 2 else mk_data(3, 77))
                mutated = "list grown in place"
            else:
                arg["zz_extra"] = mk_data(3, 78)
                mutated = "dict grown in place"
            try:
                joker.marginal_ln_likelihood(arg, smp, in_memory=True)
                raise Violation("the same container object, changed in place so that it no longer matches the prior, "
                                "was accepted by a sampler that had validated it before", change=mutated, n_offsets=noff)
            except Violation:
                raise
            except Exception:
                ctx.classes["data:re-validated after in-place change"] += 1
        ctx.note_case(case, not valid or k > 1, [cell, "entry:" + case["entry"]])

    return body


def run(ctx):
    ctx.search("priors", prior_cases(), prior_body_factory(ctx), quick=2400, thorough=30000, shrink=True)
    ctx.search("data", data_cases(), data_body_factory(ctx), quick=600, thorough=12000)
    ctx.search("default_factory", default_cases(), default_body_factory(ctx), quick=300, thorough=6000)
